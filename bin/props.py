"""Per-property check configuration: which harness, which generator profile,
which oracle kinds the property owns, campaign sizes per tier."""

LOCK_GEN = ("cases = (lock class, client program over the lock DSL, schedule) drawn from rapidcheck generators "
            "(transaction templates + structural noise; schedules: none / 1-6 targeted step-level preemptions / dense random "
            "preemptions / op-level preemptions, optional spurious weak-CAS failures); distinct = distinct 64-bit FNV hash of the "
            "case text (program + schedule); non-trivial = ")

RULES = {
    "C01": LOCK_GEN + "a request was issued while another thread held or was requesting a conflicting mode on the same lock",
    "C02": LOCK_GEN + "a request had to wait behind a conflicting grant/request and was later granted, or a conversion ran while "
                      "another thread had a pending or granted request",
    "C03": LOCK_GEN + "a validation (VerifyVersion/TryLock*) ran after another exclusive section was committed since the version "
                      "was sampled, or failed",
    "C07": LOCK_GEN + "a move/conversion involved an owning guard and (another thread later requested that lock, or the case is "
                      "single-threaded and ends with the final LockX probe)",
    "C08": LOCK_GEN + "two critical sections of different threads on one lock, at least one writing, both touched the payload",
    "C09": LOCK_GEN + "an exclusive section ended (destructor / move assignment / downgrade) or the version wrapped around",
    "C10": LOCK_GEN + "an upgrade/downgrade executed while another thread had a pending or granted request on the lock",
    "C11": LOCK_GEN + ">= 2 announced requests were waiting on the MCS lock at the same time",
    "C12": LOCK_GEN + "an X/SIX request arrived behind a shared group with >= 2 members, or >= 2 queue nodes were allocated",
    "C13": LOCK_GEN + "PrepareRead fell back to a real shared lock or was called while an exclusive holder was registered",
}


def rule_text(pid):
    return RULES.get(pid, "see DESIGN.md")


LOCK_ASSUME = [
    "only sequentially consistent interleavings are executed (scheduling points before every atomic operation and after every atomic write); "
    "happens-before is computed from the memory_order arguments in the source",
    "atomics are instrumented by renaming std::atomic spellings via a force-included prelude; __atomic builtins / atomic_ref would not be scheduling points",
    "ghost registry is a subset of the grants actually held (registered after the call returns, removed before release)",
    "STUCK = every live thread executed >= K steps without any value-changing write (yield-fair scheduler)",
]


def lock_stages(profile, quick_cases, thorough_cases, thorough_r10=None):
    q = [{"variant": "lock_r1", "binary": "lock_harness", "profile": profile, "cases_per_worker": quick_cases, "max_seconds": 240}]
    t = [{"variant": "lock_r1", "binary": "lock_harness", "profile": profile, "cases_per_worker": thorough_cases, "max_seconds": 1500},
         {"variant": "lock_r10", "binary": "lock_harness", "profile": profile, "cases_per_worker": thorough_r10 or thorough_cases // 2,
          "max_seconds": 1500}]
    return {"quick": q, "thorough": t}


THREAD_GEN = ("cases = (capacity variant, history of thread starts/exits with generated probe starts (hash of the thread id), "
              "GetThreadID/GetHeartBeat calls, epoch-guard creation/moves/destruction, coordinator forwards incl. bulk positioning next to "
              "256-epoch node boundaries, schedule with step-level preemptions incl. inside the thread-exit destructors) drawn from rapidcheck "
              "generators, each executed in a forked child; distinct = distinct 64-bit FNV hash of the case text; non-trivial = ")
RULES.update({
    "C05": THREAD_GEN + "two threads with the same probe start were claiming an ID at the same time, or a probe wrapped around the table",
    "C14": THREAD_GEN + "a claim overlapped another thread's exit cleanup, or a thread found every ID taken and had to wait",
    "C15": THREAD_GEN + "an ID was re-issued while its previous owner was inside exit cleanup or after it exited",
    "C04": THREAD_GEN + "a forward ran while >= 1 guard of another thread was alive and a thread start/exit happened in the case",
    "C16": THREAD_GEN + "a quiescent forward directly followed a period with pinned epochs, or a forward crossed a 256-epoch node boundary",
    "C17": THREAD_GEN + "a forward completed while a worker was inside GetProtectedEpochs, or a list node was retired while a guard was alive",
})

THREAD_ASSUME = [
    "only sequentially consistent interleavings; scheduling points before every atomic operation and after every atomic write, thread-exit destructors run under the scheduler",
    "shared_ptr/weak_ptr control blocks and the non-atomic fields of EpochManager are not instrumented (no scheduling points inside them)",
    "hash(thread::id) is replaced by a generated probe start; capacities are compile-time: variants 1,2,3,4,8",
    "threads hold at most one epoch guard at a time; thread 0 is the only caller of ForwardGlobalEpoch",
]


def thread_stages(profile, caps_quick, quick_cases, caps_thorough, thorough_cases):
    q = [{"variant": f"thread_c{c}", "binary": "thread_harness", "profile": profile, "cases_per_worker": quick_cases, "max_seconds": 120} for c in caps_quick]
    t = [{"variant": f"thread_c{c}", "binary": "thread_harness", "profile": profile, "cases_per_worker": thorough_cases, "max_seconds": 900} for c in caps_thorough]
    return {"quick": q, "thorough": t}


PROPS = {
    "C01": {"kinds": ["EXCLUSION", "EXCLUSION-CONV", "TORN"], "stages": lock_stages("C01", 2500, 40000), "assumptions": LOCK_ASSUME},
    "C02": {"kinds": ["STUCK", "FINAL_BUSY", "CRASH"], "stages": lock_stages("C02", 2500, 40000), "assumptions": LOCK_ASSUME},
    "C03": {"kinds": ["VERSION-RESULT", "VERSION-REFRESH", "VERSION-X", "SNAPSHOT"], "stages": lock_stages("C03", 2500, 40000),
            "assumptions": LOCK_ASSUME},
    "C07": {"kinds": ["BOOL", "STUCK", "FINAL_BUSY", "EXCLUSION", "EXCLUSION-CONV", "TORN", "CRASH", "CRASH-UAF"],
            "stages": lock_stages("C07", 2500, 40000),
            "assumptions": LOCK_ASSUME + ["C07 cases use guard-level schedules only (switches between operations or when a call blocks), so that a hang, "
                                          "a busy lock at the end or an exclusion hit is attributable to guard ownership rather than to a protocol race"]},
    "C08": {"kinds": ["RACE"], "stages": lock_stages("C08", 2500, 40000), "assumptions": LOCK_ASSUME},
    "C09": {"kinds": ["VERSION-VALUE"], "differential_kinds": ["STUCK", "FINAL_BUSY", "EXCLUSION", "EXCLUSION-CONV", "TORN"],
            "stages": lock_stages("C09", 2500, 40000),
            "assumptions": LOCK_ASSUME + ["'no version value disturbs the lock-mode state' is decided metamorphically: a hang / busy lock / exclusion hit in a C09 case "
                                          "counts for C09 only if the same program and schedule with every SetVersion removed and initial version 0 is clean"]},
    "C10": {"kinds": ["GAP", "EXCLUSION-CONV"], "stages": lock_stages("C10", 2500, 40000), "assumptions": LOCK_ASSUME},
    "C11": {"kinds": ["ORDER"], "stages": lock_stages("C11", 2500, 40000), "assumptions": LOCK_ASSUME},
    "C12": {"kinds": ["LEAK", "NODE_BOUND", "CRASH-UAF"], "stages": lock_stages("C12", 2500, 40000), "assumptions": LOCK_ASSUME},
    "C05": {"kinds": ["IDRANGE", "IDSTABLE", "IDUNIQUE"], "stages": thread_stages("C05", [1, 2, 3, 4, 8], 250, [1, 2, 3, 4, 8], 5000),
            "assumptions": THREAD_ASSUME},
    "C14": {"kinds": ["STUCK", "FINAL_BUSY"], "stages": thread_stages("C14", [1, 2, 3, 4, 8], 250, [1, 2, 3, 4, 8], 5000), "assumptions": THREAD_ASSUME},
    "C15": {"kinds": ["HB-REUSE", "HB-LIVE", "HB-EXIT"], "stages": thread_stages("C15", [2, 3, 4], 400, [1, 2, 3, 4, 8], 5000), "assumptions": THREAD_ASSUME},
    "C04": {"kinds": ["PIN-LIST", "PIN-MIN"], "stages": thread_stages("C04", [2, 3, 4], 300, [2, 3, 4, 8], 4000), "assumptions": THREAD_ASSUME},
    "C16": {"kinds": ["EPOCH-STEP", "CUR-DECREASED", "MIN-GT-CUR", "QUIESCENT-LIST", "QUIESCENT-MIN"],
            "stages": thread_stages("C16", [2, 3, 4], 300, [2, 3, 4, 8], 4000), "assumptions": THREAD_ASSUME},
    "C17": {"kinds": ["LIST-OWNER", "LIST-ORDER", "LIST-PREV", "LIST-STABLE", "GUARD-EPOCH", "GUARD-MOVE", "CRASH-UAF", "CRASH"],
            "stages": thread_stages("C17", [2, 3, 4], 300, [2, 3, 4, 8], 4000), "assumptions": THREAD_ASSUME},
    "C13": {"kinds": ["PREP-STACK", "PREP-PHANTOM", "PREP-X", "PREP-VER", "PREP-VERIFY", "CVERSION-RESULT", "CVERSION-REFRESH", "CVERSION-X", "CSNAPSHOT"],
            "stages": lock_stages("C13", 2500, 40000), "assumptions": LOCK_ASSUME},
}


def _lock_text(what, ref, extra_note=""):
    return {
        "engine": "vsched + rapidcheck (harness/lock_harness)",
        "level": what,
        "design_ref": ref,
        "note": "Trusted base: the vsched shim (atomics renamed by a force-included prelude; SC interleavings only), the ghost registry discipline "
                "(registered grants are a subset of held grants), rapidcheck's generators, g++ 12 ASan/UBSan. A pass means no counter-example among "
                "the generated (program, schedule) cases, never absence." + extra_note,
        "technique": "property-based testing: rapidcheck-generated client programs + generated schedules executed on the real lock code under a controlled "
                     "scheduler, judged by ghost-state oracles; failures shrunk by delta debugging to a replay file",
    }


MANIFEST_TEXT = {
    "C01": _lock_text("Generated programs x generated interleavings of all three lock classes; oracle = conflict in the ghost grant registry at every grant "
                      "(incl. TryLock*, PrepareRead fallback, conversions) and torn payload reads. Exploration is the right level: the property quantifies "
                      "over all schedules, which only sampling with an owned scheduler can approach by testing.", "DESIGN.md 5/C01"),
    "C02": _lock_text("Oracle = no reachable no-progress fixpoint (STUCK) under the yield-fair scheduler, every call returns, and a final LockX on every lock "
                      "succeeds without waiting.", "DESIGN.md 5/C02", " One open finding (KF-C02-MCS-SIXREL) is excluded by construction and re-reported as KNOWN-FINDING."),
    "C03": _lock_text("Exact oracle: result of VerifyVersion/TryLock* == (ghost version == carried version), guard refreshed to the ghost version, no X holder "
                      "registered at return; snapshot oracle for programs that never republish a version.", "DESIGN.md 5/C03"),
    "C07": _lock_text("operator bool of every guard slot compared with an ownership model after every operation; exactly-once release judged behaviourally "
                      "(hang, busy lock at the end, exclusion hit, sanitizer) under guard-level schedules.", "DESIGN.md 5/C07"),
    "C08": _lock_text("Vector-clock happens-before computed from the memory_order arguments written in the source; FastTrack race detection on payload words "
                      "accessed only under grants.", "DESIGN.md 5/C08 and 2.4"),
    "C09": _lock_text("Ghost version model (SetVersion argument or version at acquisition + 1 mod 2^32, updated atomically with the X-ending store) compared at "
                      "every GetVersion / XGuard::GetVersion / final observation.", "DESIGN.md 5/C09"),
    "C10": _lock_text("Registry kept continuously through UpgradeToX/DowngradeToSIX (no SIX/X grant of another thread inside the chain, no S holder at upgrade "
                      "return) plus payload continuity across the conversion.", "DESIGN.md 5/C10"),
    "C11": _lock_text("Request log: arrival = first value-changing write to the lock object inside Lock*, grant = return; at every grant no earlier-arrived "
                      "conflicting request may still be pending.", "DESIGN.md 5/C11"),
    "C12": _lock_text("Heap log of queue-node allocations made inside MCS calls: none live after all threads exited, live <= threads + outstanding at every "
                      "grant/release, AddressSanitizer for use-after-free.", "DESIGN.md 5/C12"),
    "C13": _lock_text("At PrepareRead return: owning => lock was free at the acquiring write and registry shows no other grant, VerifyVersion always true; "
                      "non-owning => no X registered, carried version == ghost version, then judged like an OptGuard.", "DESIGN.md 5/C13"),
}

NOT_APPLICABLE = [
    {"property_id": p, "reason": "check under construction in this round (harness family not yet built); will be claimed once its check exists"}
    for p in ["C04", "C05", "C06", "C14", "C15", "C16", "C17", "C18", "C19", "C20"]
]
