"""Per-property check configuration: which harness, which generator profile,
which oracle kinds the property owns, campaign sizes per tier."""

LOCK_GEN = ("cases = (lock class, client program over the lock DSL, schedule) drawn from rapidcheck generators "
            "(transaction templates + structural noise; long-lived holders (HOLD n), now and then one thread holding 31..65537 shared grants at "
            "once (S_MANY); schedules: none / 1-6 targeted step-level preemptions, optionally a burst of 2-3 switches of one thread within a few steps / "
            "dense random preemptions / op-level preemptions, optional spurious weak-CAS failures), plus the programs x schedules of the bounded sweeps; distinct = distinct 64-bit FNV hash of the "
            "case text (program + schedule); non-trivial = ")

RULES = {
    "C01": LOCK_GEN + "a request was issued while another thread held or was requesting a conflicting mode on the same lock",
    "C02": LOCK_GEN + "a request had to wait behind a conflicting grant/request and was later granted, or a conversion ran while "
                      "another thread had a pending or granted request",
    "C03": LOCK_GEN + "a validation (VerifyVersion/TryLock*) ran after another exclusive section was committed since the version "
                      "was sampled, or failed",
    "C07": LOCK_GEN + "a move/conversion involved an owning guard and (another thread later requested that lock, or the case is "
                      "single-threaded and ends with the final LockX probe)",
    "C08": LOCK_GEN + "two critical sections of different threads on one lock, at least one writing, both touched the payload",
    "C09": LOCK_GEN + "an exclusive section ended (destructor / move assignment / downgrade) or the version wrapped around",
    "C10": LOCK_GEN + "an upgrade/downgrade executed while another thread had a pending or granted request on the lock",
    "C11": LOCK_GEN + ">= 2 announced requests were waiting on the MCS lock at the same time",
    "C12": LOCK_GEN + "an X/SIX request arrived behind a shared group with >= 2 members, or >= 2 queue nodes were allocated",
    "C13": LOCK_GEN + "PrepareRead fell back to a real shared lock or was called while an exclusive holder was registered",
}


def rule_text(pid):
    return RULES.get(pid, "see DESIGN.md")


LOCK_ASSUME = [
    "only sequentially consistent interleavings are executed (scheduling points before every atomic operation and after every atomic write); "
    "happens-before is computed from the memory_order arguments in the source",
    "atomics are instrumented by renaming std::atomic spellings via a force-included prelude; __atomic builtins / atomic_ref would not be scheduling points",
    "ghost registry is a subset of the grants actually held (registered after the call returns, removed before release)",
    "STUCK = every live thread executed >= K steps without any value-changing write (yield-fair scheduler)",
]


def lock_stages(profile, quick_cases, thorough_cases, thorough_r10=None):
    q = [{"variant": "lock_r1", "binary": "lock_harness", "profile": profile, "cases_per_worker": quick_cases, "max_seconds": 240},
         {"variant": "lock_r1", "binary": "lock_harness", "profile": profile, "sweep": True, "extra": [], "cases_per_worker": 0, "max_seconds": 240,
          "engine": "bounded sweep (seed independent): two-thread one-transaction programs x ALL schedules with <= 2 step-level preemptions"},
         {"variant": "lock_r10", "binary": "lock_harness", "profile": profile, "cases_per_worker": max(1000, quick_cases // 5), "max_seconds": 240,
          "engine": "same generators against the library built with the default CPP_UTILITY_SPINLOCK_RETRY_NUM=10"},
         {"variant": "lock_r3nohint", "binary": "lock_harness", "profile": profile, "cases_per_worker": max(600, quick_cases // 8), "max_seconds": 200,
          "engine": "same generators against the library built without CPP_UTILITY_HAS_SPINLOCK_HINT (bare spin loops) and CPP_UTILITY_SPINLOCK_RETRY_NUM=3"}]
    t = [{"variant": "lock_r1", "binary": "lock_harness", "profile": profile, "cases_per_worker": thorough_cases, "max_seconds": 1500},
         {"variant": "lock_r10", "binary": "lock_harness", "profile": profile, "cases_per_worker": thorough_r10 or thorough_cases // 2,
          "max_seconds": 1500},
         {"variant": "lock_fuzz", "binary": "lock_fuzz", "replay_variant": "lock_r1", "replay_binary": "lock_harness", "profile": profile,
          "engine": "libFuzzer (coverage-guided; bytes decoded into a lock-DSL case, oracle inside the target)", "cases_per_worker": 60000, "max_seconds": 420}]
    t += [{"variant": "lock_r3nohint", "binary": "lock_harness", "profile": profile, "cases_per_worker": thorough_cases // 4, "max_seconds": 900,
           "engine": "same generators against the library built without CPP_UTILITY_HAS_SPINLOCK_HINT (bare spin loops) and CPP_UTILITY_SPINLOCK_RETRY_NUM=3"}]
    t += [{"variant": "lock_r1", "binary": "lock_harness", "profile": profile, "sweep": True, "extra": [], "cases_per_worker": 0, "max_seconds": 900,
           "engine": "bounded sweep: catalogue of two-thread one-transaction programs x ALL schedules with <= 2 step-level preemptions (complete for that sub-space)"},
          {"variant": "lock_r1", "binary": "lock_harness", "profile": profile, "sweep": True, "extra": ["--three"], "cases_per_worker": 0, "max_seconds": 300,
           "engine": "bounded sweep: three-thread programs over {S, SIX, X, SIX->X, X->SIX, X->SIX->X} x ALL schedules with <= 2 preemptions"},
          {"variant": "lock_r1", "binary": "lock_harness", "profile": profile, "sweep": True, "extra": ["--four"], "cases_per_worker": 0, "max_seconds": 780,
           "engine": "focus sweep: four threads, thread 0 runs X / SIX->X / X->SIX, the others one S / SIX / X transaction each; ALL schedules in which only "
                     "thread 0 is switched out, <= 2 times (others ready, or parked until named), and 3 times when the last two switches are <= 3 steps apart (parked)"}]
    return {"quick": q, "thorough": t}


THREAD_GEN = ("cases = (capacity variant, history of thread starts/exits with generated probe starts (hash of the thread id), "
              "GetThreadID/GetHeartBeat calls, long-lived holders, epoch-guard creation/refresh/moves/destruction incl. overlapping guards of one thread, "
              "coordinator forwards incl. bulk positioning next to 256-epoch node boundaries, a late-reservation scenario template, schedule with "
              "step-level preemptions incl. inside the thread-exit destructors) drawn from rapidcheck generators, each executed in a forked child, "
              "plus the histories x schedules of the bounded sweep; distinct = distinct 64-bit FNV hash of the case text; non-trivial = ")
RULES.update({
    "C05": THREAD_GEN + "two threads with the same probe start were claiming an ID at the same time, or a probe wrapped around the table",
    "C14": THREAD_GEN + "a claim overlapped another thread's exit cleanup, or a thread found every ID taken and had to wait",
    "C15": THREAD_GEN + "an ID was re-issued while its previous owner was inside exit cleanup or after it exited (epoch histories of the "
                        "smart-pointer stage: a forward ran while another thread's guard was alive and a thread start/exit happened in the case)",
    "C04": THREAD_GEN + "a forward ran while >= 1 guard of another thread was alive and a thread start/exit happened in the case",
    "C16": THREAD_GEN + "a quiescent forward directly followed a period with pinned epochs, or a forward crossed a 256-epoch node boundary",
    "C17": THREAD_GEN + "a forward completed while a worker was inside GetProtectedEpochs, or a list node was retired while a guard was alive",
})

THREAD_ASSUME = [
    "only sequentially consistent interleavings; scheduling points before every atomic operation and after every atomic write, thread-exit destructors run under the scheduler",
    "shared_ptr/weak_ptr reference-count operations are scheduling points only in the thread_p* variants (one stage per tier); the non-atomic fields of "
    "EpochManager are scheduling points only at the guarded hook sites",
    "hash(thread::id) is replaced by a generated probe start; capacities are compile-time: variants 1-8 and 70 (quick tier: a subset)",
    "threads hold at most one epoch guard at a time; thread 0 is the only caller of ForwardGlobalEpoch",
]


def thread_stages(profile, caps_quick, quick_cases, caps_thorough, thorough_cases):
    sweep = "bounded sweep (seed independent): catalogue of tiny thread/guard/forward histories x ALL schedules with <= 2 step-level preemptions (pairs for two-thread programs)"
    q = [{"variant": f"thread_c{c}", "binary": "thread_harness", "profile": profile, "cases_per_worker": quick_cases, "max_seconds": 120} for c in caps_quick]
    q += [{"variant": "thread_c2", "binary": "thread_harness", "profile": profile, "sweep": True, "extra": [], "cases_per_worker": 0, "max_seconds": 240, "engine": sweep}]
    t = [{"variant": f"thread_c{c}", "binary": "thread_harness", "profile": profile, "cases_per_worker": thorough_cases, "max_seconds": 900} for c in caps_thorough]
    t += [{"variant": f"thread_c{c}", "binary": "thread_harness", "profile": profile, "sweep": True, "extra": [], "cases_per_worker": 0, "max_seconds": 300, "engine": sweep}
          for c in (1, 2, 3)]
    # variants with scheduling points at the reference-count operations of shared_ptr / weak_ptr (hidden synchronisation);
    # C15 additionally runs epoch histories there (a coordinator that touches heartbeats), judged by its own oracle kinds
    smart = "same generators; library and interpreter built with scheduling points at shared_ptr / weak_ptr reference-count operations"
    profs = [profile] + (["C04"] if profile == "C15" else [])
    for pr in profs:
        q.append({"variant": "thread_p3", "binary": "thread_harness", "profile": pr, "cases_per_worker": max(200, quick_cases // 2), "max_seconds": 120, "engine": smart})
        t += [{"variant": f"thread_p{c}", "binary": "thread_harness", "profile": pr, "cases_per_worker": thorough_cases // 2, "max_seconds": 600, "engine": smart} for c in (2, 3, 4)]
    return {"quick": q, "thorough": t}


ZIPF_GEN = ("cases = (generator class exact/approx, integer type u32/u64/i32/i64, min incl. negative and near-limit values, bin count n dense around "
            "1, 2, 100, 101, 100+100m(+1,+99), powers of ten and random up to the tier's cap, skew alpha from {0, 1, 0.01-grid on [0,3], 1 +- 2^-k, large}, "
            "engine words) drawn from rapidcheck generators with native shrinking; distinct = distinct 64-bit FNV hash of the case text; non-trivial = ")
RULES.update({
    "C06": ZIPF_GEN + "the variate drawn from the scripted 64-bit engine is within 1 ulp of a CDF breakpoint, or the result is the first or last bin",
    "C18": ZIPF_GEN + "n >= 2 and every bin was compared with the long-double reference (exact class: value, monotonicity, last bin; approx class: "
                      "bit-identity for n <= 100, last bin, 0.01-closeness for n >= 1000 and alpha in [0,3])",
    "C19": ZIPF_GEN + "output sequences of length >= 16 with >= 2 distinct values were compared (twin / copy / copy-assigned / moved / move-assigned / "
                      "re-sampled / copies after their source changed or died / a warm and a cold generator shared between 2-8 threads that draw and read GetCDF; "
                      "second stage: the same cases with >= 2 threads in a ThreadSanitizer build)",
})
ZIPF_ASSUME = [
    "admissible parameters only: n and n+1 representable in the integer type, min + n - 1 representable, finite alpha >= 0, table fits in memory (tier cap on n)",
    "the uniform variate is recomputed with std::uniform_real_distribution<double>{0,1} on a copy of the scripted engine (libstdc++ 12)",
    "reference CDF: Kahan-summed long-double partial sums of powl(i, -alpha); exact-class tolerance 4n*2^-53 + 1e-15",
]


def zipf_stages(profile, quick_cases, thorough_cases):
    return {"quick": [{"variant": "zipf", "binary": "zipf_harness", "profile": profile, "cases_per_worker": quick_cases, "max_seconds": 300}],
            "thorough": [{"variant": "zipf", "binary": "zipf_harness", "profile": profile, "cases_per_worker": thorough_cases, "max_seconds": 2400, "extra": ["--big"]},
                         {"variant": "zipf", "binary": "zipf_fuzz", "replay_binary": "zipf_harness", "profile": profile, "engine": "libFuzzer (coverage-guided, structure-aware decode)",
                          "cases_per_worker": 300000 if profile == "C06" else 60000, "max_seconds": 600}]}


def zipf_c19_stages(quick_cases, thorough_cases):
    st = zipf_stages("C19", quick_cases, thorough_cases)
    tsan = {"variant": "zipf_tsan", "binary": "zipf_harness", "profile": "C19", "extra": ["--force-threads"], "engine": "rapidcheck generators, ThreadSanitizer build"}
    st["quick"].append(dict(tsan, cases_per_worker=250, max_seconds=200))
    st["thorough"].append(dict(tsan, cases_per_worker=4000, max_seconds=1200))
    return st


RULES["C20"] = ("cases = sequential histories over {Pin(thread, via CreateEpochGuard|GetProtectedEpochs), Unpin(thread), Forward(n up to 1000), ExitAndReplace(thread)} "
                "generated by rapidcheck's state-machine mode (rc::state) against a reference set model, executed on one EpochManager with capacity-1 helper OS "
                "threads that run one command at a time; every single forward is checked (list == model set, GetMinEpoch, live list nodes <= referenced "
                "256-epoch ranges + 2), and the manager is destroyed at the end (no node may stay allocated); native rapidcheck shrinking; distinct = distinct "
                "FNV hash of the executed command trace; non-trivial = a list node was retired while an older range was still pinned, or the manager was "
                "destroyed with >= 3 nodes allocated")


def seq_stages(quick_cases, thorough_cases):
    return {"quick": [{"variant": f"seq_c{c}", "binary": "epoch_seq", "profile": "C20", "cases_per_worker": quick_cases, "max_seconds": 200} for c in (5, 3, 70)],
            "thorough": [{"variant": f"seq_c{c}", "binary": "epoch_seq", "profile": "C20", "cases_per_worker": thorough_cases, "max_seconds": 1500, "extra": ["--big"]}
                         for c in (5, 3, 2, 70)]}


PROPS = {
    "C01": {"kinds": ["EXCLUSION", "EXCLUSION-CONV", "TORN"], "stages": lock_stages("C01", 8000, 60000), "assumptions": LOCK_ASSUME},
    "C02": {"kinds": ["STUCK", "FINAL_BUSY", "CRASH"], "stages": lock_stages("C02", 8000, 60000), "assumptions": LOCK_ASSUME},
    "C03": {"kinds": ["VERSION-RESULT", "VERSION-REFRESH", "VERSION-X", "SNAPSHOT"], "stages": lock_stages("C03", 8000, 60000),
            "assumptions": LOCK_ASSUME},
    "C07": {"kinds": ["BOOL", "STUCK", "FINAL_BUSY", "EXCLUSION", "EXCLUSION-CONV", "TORN", "CRASH", "CRASH-UAF"],
            "stages": lock_stages("C07", 8000, 60000),
            "assumptions": LOCK_ASSUME + ["C07 cases use guard-level schedules only (switches between operations or when a call blocks), so that a hang, "
                                          "a busy lock at the end or an exclusion hit is attributable to guard ownership rather than to a protocol race"]},
    "C08": {"kinds": ["RACE"], "stages": lock_stages("C08", 8000, 60000), "assumptions": LOCK_ASSUME},
    "C09": {"kinds": ["VERSION-VALUE"], "differential_kinds": ["STUCK", "FINAL_BUSY", "EXCLUSION", "EXCLUSION-CONV", "TORN"],
            "stages": lock_stages("C09", 8000, 60000),
            "assumptions": LOCK_ASSUME + ["'no version value disturbs the lock-mode state' is decided metamorphically: a hang / busy lock / exclusion hit in a C09 case "
                                          "counts for C09 only if the same program and schedule with every SetVersion removed and initial version 0 is clean"]},
    "C10": {"kinds": ["GAP", "EXCLUSION-CONV"], "stages": lock_stages("C10", 8000, 60000), "assumptions": LOCK_ASSUME},
    "C11": {"kinds": ["ORDER"], "stages": lock_stages("C11", 8000, 60000), "assumptions": LOCK_ASSUME},
    "C12": {"kinds": ["LEAK", "NODE_BOUND", "STALE-NODE", "CRASH-UAF"], "stages": lock_stages("C12", 8000, 60000), "assumptions": LOCK_ASSUME},
    "C05": {"kinds": ["IDRANGE", "IDSTABLE", "IDUNIQUE", "CRASH", "CRASH-UAF"], "stages": thread_stages("C05", [1, 2, 3, 4, 6, 8, 70], 300, [1, 2, 3, 4, 5, 6, 7, 8, 70], 4000),
            "assumptions": THREAD_ASSUME},
    "C14": {"kinds": ["STUCK", "FINAL_BUSY", "ID-STARVE", "CRASH", "CRASH-UAF"], "stages": thread_stages("C14", [1, 2, 3, 4, 6, 8], 300, [1, 2, 3, 4, 5, 6, 7, 8, 70], 4000), "assumptions": THREAD_ASSUME},
    "C15": {"kinds": ["HB-REUSE", "HB-LIVE", "HB-EXIT", "CRASH", "CRASH-UAF"], "stages": thread_stages("C15", [2, 3, 4, 70], 600, [1, 2, 3, 4, 5, 6, 7, 8, 70], 4000), "assumptions": THREAD_ASSUME},
    "C04": {"kinds": ["PIN-LIST", "PIN-MIN", "GUARD-UNPINNED", "CRASH", "CRASH-UAF"], "stages": thread_stages("C04", [2, 3, 5, 70], 400, [2, 3, 4, 5, 6, 7, 8, 70], 3000), "assumptions": THREAD_ASSUME},
    "C16": {"kinds": ["FWD-BLOCKED", "EPOCH-STEP", "CUR-DECREASED", "MIN-GT-CUR", "QUIESCENT-LIST", "QUIESCENT-MIN", "CRASH", "CRASH-UAF"],
            "stages": thread_stages("C16", [2, 3, 5, 70], 400, [2, 3, 4, 5, 6, 7, 8, 70], 3000), "assumptions": THREAD_ASSUME},
    "C17": {"kinds": ["LIST-OWNER", "LIST-ORDER", "LIST-PREV", "LIST-STABLE", "GUARD-EPOCH", "GUARD-MOVE", "CRASH-UAF", "CRASH"],
            "stages": thread_stages("C17", [2, 3, 5, 70], 400, [2, 3, 4, 5, 6, 7, 8, 70], 3000), "assumptions": THREAD_ASSUME},
    "C06": {"kinds": ["ZIPF-EXCEPTION", "ZIPF-RANGE", "ZIPF-INVCDF", "ZIPF-INVCDF-SEAM", "ZIPF-DEFAULT", "CRASH", "CRASH-UAF"], "stages": zipf_stages("C06", 100000, 600000),
            "native_shrink": True, "assumptions": ZIPF_ASSUME},
    "C18": {"kinds": ["ZIPF-EXCEPTION", "ZIPF-CDF-VALUE", "ZIPF-CDF-MONOTONE", "ZIPF-CDF-LAST", "ZIPF-APPROX-EXACT", "ZIPF-APPROX-CLOSE", "ZIPF-APPROX-CLOSE-TAIL",
                      "ZIPF-APPROX-CLOSE-NEAR1", "CRASH", "CRASH-UAF"], "stages": zipf_stages("C18", 9000, 40000), "native_shrink": True, "assumptions": ZIPF_ASSUME},
    "C19": {"kinds": ["ZIPF-EXCEPTION", "ZIPF-PURE", "ZIPF-SHARED", "ZIPF-REJECT", "ZIPF-RACE", "CRASH", "CRASH-UAF"], "stages": zipf_c19_stages(3500, 30000), "native_shrink": True,
            "assumptions": ZIPF_ASSUME + ["the ThreadSanitizer stage judges a data race between const calls (operator(), GetCDF) of threads sharing one generator as a "
                                          "violation (ZIPF-RACE): such a race is a write inside a call that must not change the generator"]},
    "C20": {"kinds": ["EPOCHSEQ", "CRASH", "CRASH-UAF"], "stages": seq_stages(1200, 6000), "native_shrink": True,
            "assumptions": ["histories are sequential: helper threads execute one command at a time, nothing runs concurrently with ForwardGlobalEpoch",
                            "at most one guard per thread; the observing main thread owns one ID, so capacity-1 worker threads",
                            "list nodes are recognised as 64-byte-aligned allocations (global operator new/delete replaced in the harness)"]},
    "C13": {"kinds": ["PREP-STACK", "PREP-PHANTOM", "PREP-LEAK", "PREP-X", "PREP-VER", "PREP-VERIFY", "CVERSION-RESULT", "CVERSION-REFRESH", "CVERSION-X", "CSNAPSHOT"],
            "differential_kinds": ["STUCK", "FINAL_BUSY", "EXCLUSION", "EXCLUSION-CONV", "TORN", "CRASH", "CRASH-UAF", "BOOL"], "neutralise": "composite",
            "stages": lock_stages("C13", 8000, 60000),
            "assumptions": LOCK_ASSUME + ["'released exactly once' for composite guards is decided metamorphically: a hang / busy lock / exclusion hit / crash in a C13 case counts "
                                          "for C13 only if the same program and schedule with every PrepareRead / CompositeGuard operation turned into a no-op is clean"]},
}


def _lock_text(what, ref, extra_note=""):
    return {
        "engine": "vsched + rapidcheck (harness/lock_harness)",
        "level": what,
        "design_ref": ref,
        "note": "Trusted base: the vsched shim (atomics renamed by a force-included prelude; SC interleavings only), the ghost registry discipline "
                "(registered grants are a subset of held grants), rapidcheck's generators, g++ 12 ASan/UBSan. A pass means no counter-example among "
                "the generated (program, schedule) cases, never absence." + extra_note,
        "technique": "property-based testing: rapidcheck-generated client programs + generated schedules executed on the real lock code under a controlled "
                     "scheduler, judged by ghost-state oracles; failures shrunk by delta debugging to a replay file",
    }


MANIFEST_TEXT = {
    "C01": _lock_text("Generated programs x generated interleavings of all three lock classes; oracle = conflict in the ghost grant registry at every grant "
                      "(incl. TryLock*, PrepareRead fallback, conversions) and torn payload reads. Exploration is the right level: the property quantifies "
                      "over all schedules, which only sampling with an owned scheduler can approach by testing.", "DESIGN.md 5/C01"),
    "C02": _lock_text("Oracle = no reachable no-progress fixpoint (STUCK) under the yield-fair scheduler, every call returns, and a final LockX on every lock "
                      "succeeds without waiting.", "DESIGN.md 5/C02", " One open finding (KF-C02-MCS-SIXREL) is excluded by construction and re-reported as KNOWN-FINDING."),
    "C03": _lock_text("Exact oracle: result of VerifyVersion/TryLock* == (ghost version == carried version), guard refreshed to the ghost version, no X holder "
                      "registered at return; snapshot oracle for programs that never republish a version.", "DESIGN.md 5/C03"),
    "C07": _lock_text("operator bool of every guard slot compared with an ownership model after every operation; exactly-once release judged behaviourally "
                      "(hang, busy lock at the end, exclusion hit, sanitizer) under guard-level schedules.", "DESIGN.md 5/C07"),
    "C08": _lock_text("Vector-clock happens-before computed from the memory_order arguments written in the source; FastTrack race detection on payload words "
                      "accessed only under grants.", "DESIGN.md 5/C08 and 2.4"),
    "C09": _lock_text("Ghost version model (SetVersion argument or version at acquisition + 1 mod 2^32, updated atomically with the X-ending store) compared at "
                      "every GetVersion / XGuard::GetVersion / final observation.", "DESIGN.md 5/C09"),
    "C10": _lock_text("Registry kept continuously through UpgradeToX/DowngradeToSIX (no SIX/X grant of another thread inside the chain, no S holder at upgrade "
                      "return) plus payload continuity across the conversion.", "DESIGN.md 5/C10"),
    "C11": _lock_text("Request log: arrival = first value-changing write to the lock object inside Lock*, grant = return; at every grant no earlier-arrived "
                      "conflicting request may still be pending.", "DESIGN.md 5/C11"),
    "C12": _lock_text("Heap log of queue-node allocations made inside MCS calls: none live after all threads exited, live <= threads + outstanding at every "
                      "grant/release, AddressSanitizer for use-after-free.", "DESIGN.md 5/C12"),
    "C13": _lock_text("At PrepareRead return: owning => lock was free at the acquiring write and registry shows no other grant, VerifyVersion always true; "
                      "non-owning => no X registered, carried version == ghost version, then judged like an OptGuard.", "DESIGN.md 5/C13"),
}



def _thread_text(what, ref):
    return {
        "engine": "vsched + rapidcheck (harness/thread_harness, one binary per DBGROUP_MAX_THREAD_NUM in {1,2,3,4,8}; one forked process per case)",
        "level": what,
        "design_ref": ref,
        "note": "Trusted base: the vsched shim (atomics, hash(thread::id) and sleeps renamed by a force-included prelude; SC interleavings; thread-exit destructors "
                "scheduled), ghost tables updated adjacent to the API calls, rapidcheck generators, g++ 12 ASan/UBSan. shared_ptr/weak_ptr internals and plain fields are "
                "not scheduling points. A pass means no counter-example among the generated histories x schedules.",
        "technique": "property-based testing: rapidcheck-generated thread/guard/forward histories + generated schedules (incl. preemption inside thread-exit "
                     "destructors) executed on the real IDManager/EpochManager under a controlled scheduler, judged by ghost-table oracles; delta-debugging shrinker",
    }


def _pure_text(engine, what, ref, technique):
    return {"engine": engine, "level": what, "design_ref": ref,
            "note": "Trusted base: rapidcheck, libstdc++ 12 (uniform_real_distribution, powl), g++ 12 ASan/UBSan, the stated tolerances. A pass means no counter-example among the generated inputs.",
            "technique": technique}


MANIFEST_TEXT.update({
    "C04": _thread_text("After every individually observed ForwardGlobalEpoch the coordinator fetches the published list through GetProtectedEpochs(): every guard that was "
                        "completely created before the forward started and is still alive must be in the list and >= GetMinEpoch(). Histories force ID reuse by exiting/late threads.",
                        "DESIGN.md 5/C04"),
    "C05": _thread_text("Every GetThreadID result is < capacity, equal to the thread's earlier results and not owned by another thread that is still running user code; "
                        "generated probe starts incl. full collisions and wrap-around, oversubscription.", "DESIGN.md 5/C05"),
    "C14": _thread_text("Oversubscribed histories: no STUCK while holders can still exit, and after all threads exited `capacity` fresh threads all obtain distinct IDs.", "DESIGN.md 5/C14"),
    "C15": _thread_text("At the return of a thread's first GetThreadID every heartbeat handed out to earlier owners of that ID must be expired; heartbeats are unexpired "
                        "while the thread runs and expired after it exited. Preemption between the individual steps of the exit path is generated.", "DESIGN.md 5/C15"),
    "C16": _thread_text("Epoch starts at 256 and grows by exactly one per forward (incl. bulk forwards across node boundaries); global monotonicity of GetCurrentEpoch and "
                        "GetMinEpoch <= later GetCurrentEpoch; quiescent forwards publish exactly {cur, cur-1}.", "DESIGN.md 5/C16"),
    "C17": _thread_text("At GetProtectedEpochs return: list strictly descending, front == guard epoch, contains epoch-1; snapshot compared again before the guard ends; "
                        "ASan on list-node memory; workers stalled between any two atomic steps while the coordinator performs up to ~600 forwards.", "DESIGN.md 5/C17"),
    "C20": _pure_text("rapidcheck rc::state (harness/epoch_seq, capacities 5/3/2)",
                      "Model-based (state-machine) testing of sequential histories: after every single forward list == reference set, GetMinEpoch == its minimum, "
                      "live list nodes <= referenced 256-epoch ranges + 2; destroying the manager frees every node.", "DESIGN.md 5/C20",
                      "stateful property-based testing: rapidcheck state-machine commands (Pin/Unpin/Forward/ExitAndReplace) against a reference set model, native shrinking"),
    "C06": _pure_text("rapidcheck generators + scripted 64-bit engine (harness/zipf_harness)",
                      "min <= v <= max and GetCDF(v-min-1) <= u <= GetCDF(v-min) with u recomputed from a copy of the engine; engine words aimed exactly at / 1 ulp around "
                      "CDF breakpoints, first/last bin, the 99/100 seam; default generators return 0.", "DESIGN.md 5/C06",
                      "property-based testing: rapidcheck-generated (class, type, min, n, alpha, engine word) with an inverse-CDF validity oracle; native shrinking"),
    "C18": _pure_text("rapidcheck generators + long-double reference (harness/zipf_harness)",
                      "Every bin of GetCDF compared with Kahan-summed long-double partial sums (exact class: rounding bound, monotone, last bin == 1; approx class: "
                      "bit-identical for n <= 100, last bin == 1, within 0.01 for n >= 1000 and alpha in [0,3]).", "DESIGN.md 5/C18",
                      "property-based testing: differential check of GetCDF against an independent long-double reference over generated (n, alpha, type, min)"),
    "C19": _pure_text("rapidcheck generators (harness/zipf_harness; second stage: the same worker built with -fsanitize=thread)",
                      "Metamorphic/differential: twins, copies, moved and re-sampled generators give identical sequences from identical engine states; a shared const "
                      "generator (sampled before or not) gives each of 2-8 threads its solo sequence and GetCDF values, also under ThreadSanitizer (no data race inside the "
                      "const calls); copies survive re-assignment/destruction of their source; max < min throws.", "DESIGN.md 5/C19",
                      "property-based testing: metamorphic relations over generated parameters, engine seeds and sequence lengths"),
})

NOT_APPLICABLE = []
