# Builds the verification harnesses against /repo's CURRENT working tree.
# Everything lands under /verif/build (git-ignored). Dependency-tracked (-MMD)
# on the repository sources, so any edit under /repo triggers a rebuild.
REPO ?= /repo
B := build
H := harness
CXX ?= g++
STD := -std=c++20
SAN := -fsanitize=address,undefined -fno-sanitize-recover=undefined
OPT := -O1 -g -fno-omit-frame-pointer
WARN := -Wall -Wextra -Wno-unused-parameter
COMMON := $(STD) $(OPT) $(SAN) $(WARN) -pthread -I$(H) -MMD -MP
REPODEF = -DCPP_UTILITY_BACKOFF_TIME=10 -DCPP_UTILITY_HAS_SPINLOCK_HINT
PRELUDE := -include $(H)/vsched_prelude.hpp

# every translation unit the library has today or gains through an edit (new files are picked up)
LOCK_SRCS := $(basename $(notdir $(wildcard $(REPO)/src/lock/*.cpp)))

.PHONY: all lock thread zipf seq clean
all: lock thread zipf seq

# ---------------------------------------------------------------- shared objects (no repository code)
$(B)/common/%.o: $(H)/%.cpp
	@mkdir -p $(dir $@)
	$(CXX) $(COMMON) -c $< -o $@

# ---------------------------------------------------------------- lock family, one variant per retry number
define LOCK_VARIANT
$(B)/lock_$(1)/repo_%.o: $(REPO)/src/lock/%.cpp $(H)/vsched_prelude.hpp $(H)/vsched_api.hpp
	@mkdir -p $$(dir $$@)
	$(CXX) $(COMMON) $(PRELUDE) $(3) -DDBGROUP_MAX_THREAD_NUM=8 -DCPP_UTILITY_SPINLOCK_RETRY_NUM=$(2) -I$(REPO)/include -c $$< -o $$@
$(B)/lock_$(1)/interp_lock.o: $(H)/interp_lock.cpp
	@mkdir -p $$(dir $$@)
	$(CXX) $(COMMON) -fno-access-control $(PRELUDE) $(3) -DDBGROUP_MAX_THREAD_NUM=8 -DCPP_UTILITY_SPINLOCK_RETRY_NUM=$(2) -I$(REPO)/include -c $$< -o $$@
$(B)/lock_$(1)/lock_harness: $(B)/lock_$(1)/interp_lock.o $(foreach s,$(LOCK_SRCS),$(B)/lock_$(1)/repo_$(s).o) $(B)/common/vsched_rt.o $(B)/common/gen_lock.o $(B)/common/lock_main.o
	$(CXX) $(STD) $(SAN) -pthread $$^ -lrapidcheck -o $$@
endef
$(eval $(call LOCK_VARIANT,r1,1,$(REPODEF)))
$(eval $(call LOCK_VARIANT,r10,10,$(REPODEF)))
# the library as CMake configures it on a machine without <x86intrin.h>: no spin-loop hint, spin loops are bare re-reads
$(eval $(call LOCK_VARIANT,r3nohint,3,-DCPP_UTILITY_BACKOFF_TIME=10))

# libFuzzer second engine for the lock family (clang; instrumented library + interpreter give the coverage signal)
LFUZZ := -std=c++20 -g -O1 -fno-omit-frame-pointer -fsanitize=fuzzer-no-link,address,undefined -fno-sanitize-recover=undefined -pthread -I$(H) -MMD -MP
$(B)/lock_fuzz/repo_%.o: $(REPO)/src/lock/%.cpp $(H)/vsched_prelude.hpp $(H)/vsched_api.hpp
	@mkdir -p $(dir $@)
	clang++ $(LFUZZ) $(PRELUDE) $(REPODEF) -DDBGROUP_MAX_THREAD_NUM=8 -DCPP_UTILITY_SPINLOCK_RETRY_NUM=1 -I$(REPO)/include -c $< -o $@
$(B)/lock_fuzz/interp_lock.o: $(H)/interp_lock.cpp
	@mkdir -p $(dir $@)
	clang++ $(LFUZZ) -fno-access-control $(PRELUDE) $(REPODEF) -DDBGROUP_MAX_THREAD_NUM=8 -DCPP_UTILITY_SPINLOCK_RETRY_NUM=1 -I$(REPO)/include -c $< -o $@
$(B)/lock_fuzz/%.o: $(H)/%.cpp
	@mkdir -p $(dir $@)
	clang++ $(LFUZZ) -c $< -o $@
$(B)/lock_fuzz/lock_fuzz: $(B)/lock_fuzz/lock_fuzz.o $(B)/lock_fuzz/interp_lock.o $(B)/lock_fuzz/vsched_rt.o $(foreach s,$(LOCK_SRCS),$(B)/lock_fuzz/repo_$(s).o)
	clang++ -std=c++20 -fsanitize=fuzzer,address,undefined -pthread $^ -o $@

lock: $(B)/lock_r1/lock_harness $(B)/lock_r10/lock_harness $(B)/lock_r3nohint/lock_harness $(B)/lock_fuzz/lock_fuzz

# ---------------------------------------------------------------- thread family, one variant per capacity
THREAD_SRCS := $(basename $(notdir $(wildcard $(REPO)/src/thread/*.cpp))) $(addprefix component/,$(basename $(notdir $(wildcard $(REPO)/src/thread/component/*.cpp))))
define THREAD_VARIANT
$(B)/thread_c$(1)/repo_%.o: $(REPO)/src/thread/%.cpp $(H)/vsched_prelude.hpp $(H)/vsched_api.hpp
	@mkdir -p $$(dir $$@)
	$(CXX) $(COMMON) $(PRELUDE) $(REPODEF) -DCPP_UTILITY_VERIF -DDBGROUP_MAX_THREAD_NUM=$(1) -DCPP_UTILITY_SPINLOCK_RETRY_NUM=10 -I$(REPO)/include -c $$< -o $$@
$(B)/thread_c$(1)/interp_thread.o: $(H)/interp_thread.cpp
	@mkdir -p $$(dir $$@)
	$(CXX) $(COMMON) $(PRELUDE) $(REPODEF) -DCPP_UTILITY_VERIF -DDBGROUP_MAX_THREAD_NUM=$(1) -DCPP_UTILITY_SPINLOCK_RETRY_NUM=10 -I$(REPO)/include -c $$< -o $$@
$(B)/thread_c$(1)/thread_harness: $(B)/thread_c$(1)/interp_thread.o $(foreach s,$(THREAD_SRCS),$(B)/thread_c$(1)/repo_$(s).o) $(B)/common/vsched_rt.o $(B)/common/gen_thread.o $(B)/common/thread_main.o
	$(CXX) $(STD) $(SAN) -pthread $$^ -lrapidcheck -o $$@
endef
# the same with scheduling points at the reference-count operations of shared_ptr / weak_ptr (hidden synchronisation)
define THREADP_VARIANT
$(B)/thread_p$(1)/repo_%.o: $(REPO)/src/thread/%.cpp $(H)/vsched_prelude.hpp $(H)/vsched_api.hpp
	@mkdir -p $$(dir $$@)
	$(CXX) $(COMMON) $(PRELUDE) $(REPODEF) -DVSCHED_SHIM_SMART_PTR -DCPP_UTILITY_VERIF -DDBGROUP_MAX_THREAD_NUM=$(1) -DCPP_UTILITY_SPINLOCK_RETRY_NUM=10 -I$(REPO)/include -c $$< -o $$@
$(B)/thread_p$(1)/interp_thread.o: $(H)/interp_thread.cpp
	@mkdir -p $$(dir $$@)
	$(CXX) $(COMMON) $(PRELUDE) $(REPODEF) -DVSCHED_SHIM_SMART_PTR -DCPP_UTILITY_VERIF -DDBGROUP_MAX_THREAD_NUM=$(1) -DCPP_UTILITY_SPINLOCK_RETRY_NUM=10 -I$(REPO)/include -c $$< -o $$@
$(B)/thread_p$(1)/thread_harness: $(B)/thread_p$(1)/interp_thread.o $(foreach s,$(THREAD_SRCS),$(B)/thread_p$(1)/repo_$(s).o) $(B)/common/vsched_rt.o $(B)/common/gen_thread.o $(B)/common/thread_main.o
	$(CXX) $(STD) $(SAN) -pthread $$^ -lrapidcheck -o $$@
endef
THREADP_CAPS := 2 3 4
$(foreach c,$(THREADP_CAPS),$(eval $(call THREADP_VARIANT,$(c))))
THREAD_CAPS := 1 2 3 4 5 6 7 8 70
$(foreach c,$(THREAD_CAPS),$(eval $(call THREAD_VARIANT,$(c))))
thread: $(foreach c,$(THREAD_CAPS),$(B)/thread_c$(c)/thread_harness) $(foreach c,$(THREADP_CAPS),$(B)/thread_p$(c)/thread_harness)

# ---------------------------------------------------------------- Zipf family (pure; no prelude)
RANDOM_SRCS := $(basename $(notdir $(wildcard $(REPO)/src/random/*.cpp)))
$(B)/zipf/repo_%.o: $(REPO)/src/random/%.cpp
	@mkdir -p $(dir $@)
	$(CXX) $(COMMON) -I$(REPO)/include -c $< -o $@
$(B)/zipf/zipf_main.o: $(H)/zipf_main.cpp
	@mkdir -p $(dir $@)
	$(CXX) $(COMMON) -I$(REPO)/include -c $< -o $@
$(B)/zipf/zipf_harness: $(B)/zipf/zipf_main.o $(foreach s,$(RANDOM_SRCS),$(B)/zipf/repo_$(s).o)
	$(CXX) $(STD) $(SAN) -pthread $^ -lrapidcheck -o $@
# libFuzzer second engine (thorough tier): clang + fuzzer,address,undefined
FUZZ_CXX ?= clang++
FUZZFLAGS := -std=c++20 -g -O1 -fno-omit-frame-pointer -fsanitize=fuzzer-no-link,address,undefined -fno-sanitize-recover=undefined -I$(H) -I$(REPO)/include -MMD -MP
$(B)/zipf/fuzz_repo_%.o: $(REPO)/src/random/%.cpp
	@mkdir -p $(dir $@)
	$(FUZZ_CXX) $(FUZZFLAGS) -c $< -o $@
$(B)/zipf/zipf_fuzz.o: $(H)/zipf_fuzz.cpp
	@mkdir -p $(dir $@)
	$(FUZZ_CXX) $(FUZZFLAGS) -c $< -o $@
$(B)/zipf/zipf_fuzz: $(B)/zipf/zipf_fuzz.o $(foreach s,$(RANDOM_SRCS),$(B)/zipf/fuzz_repo_$(s).o)
	$(FUZZ_CXX) -std=c++20 -fsanitize=fuzzer,address,undefined -pthread $^ -o $@
# ThreadSanitizer build of the same worker (C19: several threads share one const generator; a data race inside
# the const calls ends the process and the driver reports it as ZIPF-RACE)
TSANFLAGS := $(STD) -g -O1 -fno-omit-frame-pointer -fsanitize=thread -I$(H) -I$(REPO)/include -MMD -MP
$(B)/zipf_tsan/repo_%.o: $(REPO)/src/random/%.cpp
	@mkdir -p $(dir $@)
	$(CXX) $(TSANFLAGS) -c $< -o $@
$(B)/zipf_tsan/zipf_main.o: $(H)/zipf_main.cpp
	@mkdir -p $(dir $@)
	$(CXX) $(TSANFLAGS) -c $< -o $@
$(B)/zipf_tsan/zipf_harness: $(B)/zipf_tsan/zipf_main.o $(foreach s,$(RANDOM_SRCS),$(B)/zipf_tsan/repo_$(s).o)
	$(CXX) $(STD) -fsanitize=thread -pthread $^ -lrapidcheck -o $@
zipf: $(B)/zipf/zipf_harness $(B)/zipf/zipf_fuzz $(B)/zipf_tsan/zipf_harness

# ---------------------------------------------------------------- C20: sequential EpochManager model (rc::state; no prelude)
define SEQ_VARIANT
$(B)/seq_c$(1)/repo_%.o: $(REPO)/src/thread/%.cpp
	@mkdir -p $$(dir $$@)
	$(CXX) $(COMMON) $(REPODEF) -DDBGROUP_MAX_THREAD_NUM=$(1) -I$(REPO)/include -c $$< -o $$@
$(B)/seq_c$(1)/epoch_seq.o: $(H)/epoch_seq.cpp
	@mkdir -p $$(dir $$@)
	$(CXX) $(COMMON) $(REPODEF) -DDBGROUP_MAX_THREAD_NUM=$(1) -I$(REPO)/include -c $$< -o $$@
$(B)/seq_c$(1)/epoch_seq: $(B)/seq_c$(1)/epoch_seq.o $(foreach s,$(THREAD_SRCS),$(B)/seq_c$(1)/repo_$(s).o)
	$(CXX) $(STD) $(SAN) -pthread $$^ -lrapidcheck -o $$@
endef
SEQ_CAPS := 2 3 5 70
$(foreach c,$(SEQ_CAPS),$(eval $(call SEQ_VARIANT,$(c))))
seq: $(foreach c,$(SEQ_CAPS),$(B)/seq_c$(c)/epoch_seq)

clean:
	rm -rf $(B)

-include $(shell find $(B) -name '*.d' 2>/dev/null)
