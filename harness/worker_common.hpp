// Shared worker plumbing (no prelude): result files, hashing, fatal handling.
#pragma once
#include <fcntl.h>
#include <sys/stat.h>
#include <unistd.h>

#include <cstdint>
#include <cstdio>
#include <cstdlib>
#include <cstring>
#include <fstream>
#include <map>
#include <set>
#include <sstream>
#include <string>
#include <vector>

namespace wk
{
inline uint64_t
splitmix(uint64_t x)
{
  x += 0x9E3779B97F4A7C15ULL;
  x = (x ^ (x >> 30)) * 0xBF58476D1CE4E5B9ULL;
  x = (x ^ (x >> 27)) * 0x94D049BB133111EBULL;
  return x ^ (x >> 31);
}

inline uint64_t
fnv(const std::string &s)
{
  uint64_t h = 1469598103934665603ULL;
  for (unsigned char ch : s) {
    h ^= ch;
    h *= 1099511628211ULL;
  }
  return h;
}

inline std::string
jesc(const std::string &s)
{
  std::string o;
  for (unsigned char ch : s) {
    if (ch == '"' || ch == '\\') {
      o += '\\';
      o += static_cast<char>(ch);
    } else if (ch == '\n') {
      o += "\\n";
    } else if (ch < 0x20) {
      char b[8];
      snprintf(b, sizeof b, "\\u%04x", ch);
      o += b;
    } else {
      o += static_cast<char>(ch);
    }
  }
  return o;
}

inline bool
write_file(const std::string &path, const std::string &content)
{
  const std::string tmp = path + ".tmp";
  FILE *f = fopen(tmp.c_str(), "w");
  if (!f) return false;
  fwrite(content.data(), 1, content.size(), f);
  fclose(f);
  return rename(tmp.c_str(), path.c_str()) == 0;
}

inline std::string
read_file(const std::string &path)
{
  std::ifstream in(path);
  std::stringstream ss;
  ss << in.rdbuf();
  return ss.str();
}

// counters of one worker segment, serialised as JSON
struct Counters {
  uint64_t evaluations = 0;
  uint64_t nontrivial = 0;
  uint64_t inconclusive = 0;
  uint64_t steps = 0;
  uint64_t skipped_ops = 0;
  uint64_t executed_ops = 0;
  uint64_t excluded_known = 0;
  std::map<std::string, uint64_t> labels;       // label distribution
  std::map<std::string, uint64_t> report_kinds; // oracle hits by kind (all kinds, incl. collateral)
  std::set<uint64_t> nontrivial_hashes;
  std::vector<std::string> samples;             // a few cases verbatim
  struct Viol {
    std::string kind;
    std::string msg;
    std::string file;
    uint64_t index;
  };
  std::vector<Viol> viols;
  std::string fatal;       // "", "STUCK", "STEPBOUND"
  int fatal_phase = 0;
  uint64_t fatal_index = 0;
  std::string fatal_file;
  uint64_t next_index = 0;  // first case index not executed
  bool done = false;

  std::string
  to_json() const
  {
    std::ostringstream o;
    o << "{\"evaluations\":" << evaluations << ",\"nontrivial\":" << nontrivial << ",\"inconclusive\":" << inconclusive << ",\"steps\":" << steps
      << ",\"skipped_ops\":" << skipped_ops << ",\"excluded_known\":" << excluded_known << ",\"executed_ops\":" << executed_ops << ",\"next_index\":" << next_index
      << ",\"done\":" << (done ? "true" : "false") << ",\"fatal\":\"" << fatal << "\",\"fatal_phase\":" << fatal_phase
      << ",\"fatal_index\":" << fatal_index << ",\"fatal_file\":\"" << jesc(fatal_file) << "\"";
    o << ",\"labels\":{";
    bool first = true;
    for (auto &[k, v] : labels) {
      o << (first ? "" : ",") << "\"" << jesc(k) << "\":" << v;
      first = false;
    }
    o << "},\"report_kinds\":{";
    first = true;
    for (auto &[k, v] : report_kinds) {
      o << (first ? "" : ",") << "\"" << jesc(k) << "\":" << v;
      first = false;
    }
    o << "},\"hashes\":[";
    first = true;
    for (auto h : nontrivial_hashes) {
      o << (first ? "" : ",") << "\"" << std::hex << h << std::dec << "\"";
      first = false;
    }
    o << "],\"samples\":[";
    first = true;
    for (auto &s : samples) {
      o << (first ? "" : ",") << "\"" << jesc(s) << "\"";
      first = false;
    }
    o << "],\"violations\":[";
    first = true;
    for (auto &v : viols) {
      o << (first ? "" : ",") << "{\"kind\":\"" << jesc(v.kind) << "\",\"msg\":\"" << jesc(v.msg) << "\",\"file\":\"" << jesc(v.file)
        << "\",\"index\":" << v.index << "}";
      first = false;
    }
    o << "]}";
    return o.str();
  }
};

}  // namespace wk
