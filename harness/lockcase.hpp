// Lock-family case: client program + schedule, as plain data with a line-oriented
// text form (the replay file). Shared by the generator (no prelude) and the
// interpreter (prelude) — must not use identifiers the prelude renames.
#pragma once
#include <cstdint>
#include <cstdio>
#include <cstdlib>
#include <cstring>
#include <sstream>
#include <string>
#include <vector>

#include "vsched_api.hpp"

namespace lockcase
{
enum Cls : int { kPess = 0, kOpt = 1, kMcs = 2 };
inline const char *kClsName[] = {"pess", "opt", "mcs"};

// guard slot kinds
enum SlotKind : uint8_t { kS = 0, kI = 1, kX = 2, kO = 3, kC = 4 };
inline const char kSlotLetter[] = {'s', 'i', 'x', 'o', 'c'};
constexpr int kSlotsPerKind = 2;

enum OpCode : uint8_t {
  ACQ_S, ACQ_SIX, ACQ_X,   // L slot
  REL,                     // kind slot         (move-assign an empty guard)
  DROP,                    // kind slot         (run the destructor)
  MOVE,                    // kind a b          (b = std::move(a))
  MOVECTOR,                // kind a            (tmp{std::move(a)}; a = std::move(tmp))
  SELFMOVE,                // kind a            (tmp = std::move(a); a = std::move(tmp)) via default-constructed tmp
  UPG,                     // i x
  DWN,                     // x i
  READ,                    // kind slot (s/i/x)
  WRITE,                   // x
  GETVER,                  // L o
  COPYOPT,                 // a b   (o_b = o_a)
  OPTREAD,                 // kind(o|c) slot
  VERIFY,                  // o
  TRY_S, TRY_SIX, TRY_X,   // o slot
  PREP,                    // L c
  CVERIFY,                 // c
  SETVER,                  // x value
  XVER,                    // x
  NOP,                     // harness scheduling point only
  S_MANY,                  // a: lock, arg: n - this thread takes n shared grants on the lock (guards are not bound to threads) and keeps them
  S_MANY_REL,              // a: lock - releases them all
  PARK,                    // the thread acts only when a preemption of another thread names it (or nobody else can run)
  HOLD,                    // arg: stay where we are (typically inside a critical section) for arg interpreter-level yields
  kNumOps
};
inline const char *kOpName[] = {"ACQ_S", "ACQ_SIX", "ACQ_X", "REL", "DROP", "MOVE", "MOVECTOR", "SELFMOVE", "UPG", "DWN", "READ",
                                "WRITE", "GETVER", "COPYOPT", "OPTREAD", "VERIFY", "TRY_S", "TRY_SIX", "TRY_X", "PREP", "CVERIFY",
                                "SETVER", "XVER", "NOP", "S_MANY", "S_MANY_REL", "PARK", "HOLD"};

struct Op {
  uint8_t code = NOP;
  uint8_t a = 0;       // first operand (lock index or slot kind or slot index, see above)
  uint8_t b = 0;
  uint8_t c = 0;
  uint32_t arg = 0;    // SETVER value
};

struct Thread {
  uint8_t sk = vsched::kBegin;
  int dep = -1;
  std::vector<Op> ops;
};

struct OpPreempt {   // switch away right before op #op of thread
  int thread;
  uint32_t op;
  int target;
};

struct Case {
  int cls = kPess;
  int nlocks = 1;
  uint32_t initver[2] = {0, 0};   // OptimisticLock: initial version published by a prologue X section
  std::vector<Thread> threads;
  vsched::Schedule sched;          // step-level preemptions + spurious CAS failures
  std::vector<OpPreempt> oppre;    // op-level preemptions
  // replay-only option (never generated): lift the by-construction exclusion of known finding KF-C02-MCS-SIXREL
  bool allow_blocking_release = false;
  // compatible nested requests of one thread on one lock (S+S, S+SIX) are generated (C07 only; never on MCSLock)
  bool allow_nesting = false;
};

inline std::string
to_text(const Case &c)
{
  std::ostringstream o;
  o << "family lock\n";
  o << "class " << kClsName[c.cls] << "\n";
  o << "locks " << c.nlocks << "\n";
  if (c.allow_blocking_release) o << "option allow_blocking_release 1\n";
  if (c.allow_nesting) o << "option allow_nesting 1\n";
  for (int l = 0; l < c.nlocks && l < 2; l++) {
    if (c.initver[l] != 0) o << "initver " << l << " " << c.initver[l] << "\n";
  }
  for (size_t t = 0; t < c.threads.size(); t++) {
    const auto &th = c.threads[t];
    o << "thread " << t << " " << (th.sk == vsched::kBegin ? "begin" : th.sk == vsched::kParked ? "parked" : th.sk == vsched::kAfterBody ? "after_body" : "after_exit") << " " << th.dep
      << "\n";
    for (const auto &op : th.ops) {
      o << "op " << t << " " << kOpName[op.code] << " " << static_cast<int>(op.a) << " " << static_cast<int>(op.b) << " "
        << static_cast<int>(op.c) << " " << op.arg << "\n";
    }
  }
  for (const auto &p : c.oppre) o << "oppreempt " << p.thread << " " << p.op << " " << p.target << "\n";
  for (const auto &p : c.sched.preempts) o << "preempt " << p.thread << " " << p.lstep << " " << p.target << "\n";
  for (const auto &p : c.sched.casfails) o << "casfail " << p.thread << " " << p.nth << "\n";
  return o.str();
}

inline bool
from_text(const std::string &text, Case &c, std::string &err)
{
  c = Case{};
  std::istringstream in(text);
  std::string line;
  while (std::getline(in, line)) {
    if (line.empty() || line[0] == '#') continue;
    std::istringstream ls(line);
    std::string w;
    ls >> w;
    if (w == "family") {
      continue;
    } else if (w == "class") {
      std::string n;
      ls >> n;
      c.cls = n == "pess" ? kPess : n == "opt" ? kOpt : kMcs;
    } else if (w == "locks") {
      ls >> c.nlocks;
      if (c.nlocks < 1) c.nlocks = 1;
      if (c.nlocks > 2) c.nlocks = 2;
    } else if (w == "option") {
      std::string n;
      int v = 0;
      ls >> n >> v;
      if (n == "allow_blocking_release") c.allow_blocking_release = v != 0;
      if (n == "allow_nesting") c.allow_nesting = v != 0;
    } else if (w == "initver") {
      int l = 0;
      uint32_t v = 0;
      ls >> l >> v;
      if (l >= 0 && l < 2) c.initver[l] = v;
    } else if (w == "thread") {
      size_t t = 0;
      std::string sk;
      int dep = -1;
      ls >> t >> sk >> dep;
      if (t >= static_cast<size_t>(vsched::kMaxT)) continue;
      if (c.threads.size() <= t) c.threads.resize(t + 1);
      c.threads[t].sk = sk == "begin" ? vsched::kBegin : sk == "parked" ? vsched::kParked : sk == "after_body" ? vsched::kAfterBody : vsched::kAfterExit;
      c.threads[t].dep = dep;
    } else if (w == "op") {
      size_t t = 0;
      std::string name;
      int a = 0, b = 0, cc = 0;
      uint32_t arg = 0;
      ls >> t >> name >> a >> b >> cc >> arg;
      if (t >= static_cast<size_t>(vsched::kMaxT)) continue;
      if (c.threads.size() <= t) c.threads.resize(t + 1);
      Op op;
      bool found = false;
      for (int k = 0; k < kNumOps; k++) {
        if (name == kOpName[k]) {
          op.code = static_cast<uint8_t>(k);
          found = true;
        }
      }
      if (!found) {
        err = "unknown op " + name;
        return false;
      }
      op.a = static_cast<uint8_t>(a);
      op.b = static_cast<uint8_t>(b);
      op.c = static_cast<uint8_t>(cc);
      op.arg = arg;
      c.threads[t].ops.push_back(op);
    } else if (w == "oppreempt") {
      OpPreempt p{};
      ls >> p.thread >> p.op >> p.target;
      c.oppre.push_back(p);
    } else if (w == "preempt") {
      vsched::Preempt p{};
      ls >> p.thread >> p.lstep >> p.target;
      c.sched.preempts.push_back(p);
    } else if (w == "casfail") {
      vsched::CasFail p{};
      ls >> p.thread >> p.nth;
      c.sched.casfails.push_back(p);
    } else {
      err = "unknown line: " + line;
      return false;
    }
  }
  if (c.threads.empty()) c.threads.resize(1);
  return true;
}

// per-execution outcome, produced by the interpreter (plain data)
struct Outcome {
  // non-triviality flags (each property states its own rule over these)
  bool contended = false;        // a request was issued while a conflicting grant/request of another thread existed
  bool waited_granted = false;   // ... and that request was later granted (a hand-off happened)
  bool conv_raced = false;       // an upgrade/downgrade executed while another thread had a pending/granted request on the lock
  bool conflict_sections = false;  // two conflicting critical sections (>= 1 write) by different threads on one lock both ran
  bool owning_move = false;      // a move/conversion involved an owning guard
  bool later_conflict = false;   // ... and a later conflicting request by another thread on that lock was made
  bool validate_raced = false;   // a validation (VERIFY/TRY/CVERIFY) ran after another thread committed since the sample, or failed
  bool validated_ok = false;     // a validation succeeded
  bool x_end_dtor = false, x_end_move = false, x_end_dwn = false, wrapped = false;
  uint32_t lsteps[vsched::kMaxT] = {};  // scheduling points each thread passed in the main phase (the sweeps enumerate them)
  uint32_t many_shared = 0;      // largest number of shared grants one thread held at once through S_MANY
  bool prep_fallback = false;    // PrepareRead returned an owning guard
  bool prep_seen_x = false;      // PrepareRead called while X registered
  bool two_waiting = false;      // >= 2 requests waiting simultaneously (MCS)
  bool group_successor = false;  // a queue node was allocated while another request was pending (MCS)
  int grants = 0;
  int skipped = 0;               // ill-formed ops skipped
  int excluded_known = 0;        // ops skipped because they would re-enter a known finding (counted, see known_findings.json)
  int executed = 0;
  bool exact = true;             // ghost version stayed exact
  bool owning_move_lock[2] = {false, false};
  int nodes_total = 0;           // queue nodes allocated (MCS)
};

}  // namespace lockcase
