// Thread-family case (IDManager / EpochManager): history of thread starts/exits,
// ID requests, guard creation/destruction, forwards + schedule. Plain data with
// a line-oriented text form. Shared by generator (no prelude) and interpreter.
#pragma once
#include <cstdint>
#include <sstream>
#include <string>
#include <vector>

#include "vsched_api.hpp"

namespace threadcase
{
enum OpCode : uint8_t {
  GETID,       // IDManager::GetThreadID
  GETHB,       // IDManager::GetHeartBeat (stored in the ghost table)
  CHECKHB,     // every heartbeat this thread obtained must be unexpired
  SPIN,        // n harness scheduling points (stay in user code)
  GUARD_NEW,   // a: 0 = CreateEpochGuard, 1 = GetProtectedEpochs
  GUARD_MOVE,  // a: 0 = move construction, 1 = move assignment (round trip, still one owner)
  GUARD_END,   // a: 0 = move-assign an empty temporary, 1 = destructor, 2 = move-assign from a named empty guard that lives on
  CHECK_LIST,  // list obtained from GetProtectedEpochs must still equal its snapshot
  READ_CUR,    // GetCurrentEpoch
  READ_MIN,    // GetMinEpoch
  FWD,         // n forwards, each individually observed (coordinator only)
  FWD_BULK,    // n forwards inside a no-preempt scope (positioning)
  YIELD,       // let every other runnable thread go first (stay in user code)
  GUARD_REFRESH,  // guard = CreateEpochGuard() / GetProtectedEpochs().first while the guard is alive (a: 0/1)
  NOP,
  GUARD2_NEW,  // a second, overlapping guard of the same thread (CreateEpochGuard) while the first is alive
  GUARD2_END,  // destroys the second guard (before or after the first: nesting order is the generator's choice)
  kNumOps
};
inline const char *kOpName[] = {"GETID", "GETHB", "CHECKHB", "SPIN", "GUARD_NEW", "GUARD_MOVE", "GUARD_END", "CHECK_LIST",
                                "READ_CUR", "READ_MIN", "FWD", "FWD_BULK", "YIELD", "GUARD_REFRESH", "NOP", "GUARD2_NEW", "GUARD2_END"};

struct Op {
  uint8_t code = NOP;
  uint32_t a = 0;
};

struct Thread {
  uint8_t sk = vsched::kBegin;
  int dep = -1;
  uint64_t probe = 0;  // value substituted for hash(thread id): the probe start
  std::vector<Op> ops;
};

struct Case {
  int cap = 0;  // capacity the case was generated for (the binary's DBGROUP_MAX_THREAD_NUM must match)
  bool use_epoch = false;
  // replay-only option (never generated): enable the scheduling points inside GetProtectedEpochs' walk over the
  // list nodes (source hook CPP_UTILITY_VERIF_POINT); lifts the by-construction exclusion of known finding KF-C17-WALK
  bool walk_points = false;
  std::vector<Thread> threads;
  vsched::Schedule sched;
};

inline std::string
to_text(const Case &c)
{
  std::ostringstream o;
  o << "family thread\n";
  o << "cap " << c.cap << "\n";
  o << "epoch " << (c.use_epoch ? 1 : 0) << "\n";
  if (c.walk_points) o << "option walk_points 1\n";
  for (size_t t = 0; t < c.threads.size(); t++) {
    const auto &th = c.threads[t];
    o << "thread " << t << " " << (th.sk == vsched::kBegin ? "begin" : th.sk == vsched::kAfterBody ? "after_body" : "after_exit") << " " << th.dep
      << " " << th.probe << "\n";
    for (const auto &op : th.ops) o << "op " << t << " " << kOpName[op.code] << " " << op.a << "\n";
  }
  for (const auto &p : c.sched.preempts) o << "preempt " << p.thread << " " << p.lstep << " " << p.target << "\n";
  return o.str();
}

inline bool
from_text(const std::string &text, Case &c, std::string &err)
{
  c = Case{};
  std::istringstream in(text);
  std::string line;
  while (std::getline(in, line)) {
    if (line.empty() || line[0] == '#') continue;
    std::istringstream ls(line);
    std::string w;
    ls >> w;
    if (w == "family") {
      continue;
    } else if (w == "cap") {
      ls >> c.cap;
    } else if (w == "epoch") {
      int v = 0;
      ls >> v;
      c.use_epoch = v != 0;
    } else if (w == "option") {
      std::string n;
      int v = 0;
      ls >> n >> v;
      if (n == "walk_points") c.walk_points = v != 0;
    } else if (w == "thread") {
      size_t t = 0;
      std::string sk;
      int dep = -1;
      uint64_t probe = 0;
      ls >> t >> sk >> dep >> probe;
      if (t >= static_cast<size_t>(vsched::kMaxT)) continue;
      if (c.threads.size() <= t) c.threads.resize(t + 1);
      c.threads[t].sk = sk == "begin" ? vsched::kBegin : sk == "after_body" ? vsched::kAfterBody : vsched::kAfterExit;
      c.threads[t].dep = dep;
      c.threads[t].probe = probe;
    } else if (w == "op") {
      size_t t = 0;
      std::string name;
      uint32_t a = 0;
      ls >> t >> name >> a;
      if (t >= static_cast<size_t>(vsched::kMaxT)) continue;
      if (c.threads.size() <= t) c.threads.resize(t + 1);
      Op op;
      bool found = false;
      for (int k = 0; k < kNumOps; k++) {
        if (name == kOpName[k]) {
          op.code = static_cast<uint8_t>(k);
          found = true;
        }
      }
      if (!found) {
        err = "unknown op " + name;
        return false;
      }
      op.a = a;
      c.threads[t].ops.push_back(op);
    } else if (w == "preempt") {
      vsched::Preempt p{};
      ls >> p.thread >> p.lstep >> p.target;
      c.sched.preempts.push_back(p);
    } else {
      err = "unknown line: " + line;
      return false;
    }
  }
  if (c.threads.empty()) c.threads.resize(1);
  return true;
}

struct Outcome {
  bool probe_collision = false;   // two threads probed the same slot while both were claiming
  bool probe_wrapped = false;     // a probe wrapped around the table
  bool waited_full = false;       // a thread found every ID taken at least once
  bool reuse_in_cleanup = false;  // an ID was re-issued while its previous owner was inside exit cleanup
  bool reuse_after_exit = false;  // an ID was re-issued after its previous owner exited
  bool claim_overlaps_exit = false;
  bool fwd_with_foreign_guard = false;  // a forward ran while >= 1 foreign guard was alive
  bool thread_churn = false;            // a thread start/exit happened in the case
  bool quiescent_after_pinned = false;  // a quiescent forward directly followed a period with pinned epochs
  bool boundary_crossed = false;        // a forward created a new 256-epoch node
  bool fwd_inside_getprotected = false; // a forward completed between two steps of a GetProtectedEpochs call
  bool node_retired_under_guard = false;
  int ids_issued = 0;
  bool overlapping_guards = false;
  int max_id = -1;  // largest thread ID handed out in this case
  int guards = 0;
  int forwards = 0;
  int skipped = 0;
  int executed = 0;
  uint32_t lsteps[vsched::kMaxT] = {};  // local step counts of the program's threads (main phase)
  int excluded_known = 0;  // hook points left inert (stalls inside the node walk are excluded: KF-C17-WALK)
};

}  // namespace threadcase
