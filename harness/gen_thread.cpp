// rapidcheck generators for thread-family cases (no prelude).
#include "gen_thread.hpp"

#include <rapidcheck.h>

#include "worker_common.hpp"

using namespace threadcase;  // NOLINT

namespace
{
int
pick(int lo, int hi)
{
  if (hi <= lo) return lo;
  return *rc::gen::inRange(lo, hi + 1);
}
bool
chance(int percent)
{
  return pick(0, 99) < percent;
}
int
weighted(std::initializer_list<int> w)
{
  int total = 0;
  for (int x : w) total += x;
  if (total <= 0) return 0;
  int r = pick(0, total - 1);
  int i = 0;
  for (int x : w) {
    if (r < x) return i;
    r -= x;
    i++;
  }
  return 0;
}

Op
mk(uint8_t code, uint32_t a = 0)
{
  Op o;
  o.code = code;
  o.a = a;
  return o;
}

void
assign_probes(Case &c, int cap)
{
  const int n = static_cast<int>(c.threads.size());
  const int style = weighted({3, 3, 2, 2, 2, 3, 2});
  const uint64_t cl_a = static_cast<uint64_t>(pick(0, cap - 1)), cl_b = static_cast<uint64_t>(pick(0, cap - 1));
  const uint64_t base = static_cast<uint64_t>(pick(0, cap - 1));
  for (int t = 0; t < n; t++) {
    switch (style) {
      case 0: c.threads[t].probe = base; break;                                  // full collision
      case 1: c.threads[t].probe = static_cast<uint64_t>(t); break;              // distinct
      case 2: c.threads[t].probe = static_cast<uint64_t>(cap - 1); break;        // wrap-around start
      case 3: c.threads[t].probe = *rc::gen::arbitrary<uint64_t>(); break;       // arbitrary hash
      case 6: c.threads[t].probe = chance(50) ? cl_a : cl_b; break;              // two clusters of colliding threads anywhere in the table
      case 5: c.threads[t].probe = static_cast<uint64_t>(pick(0, cap - 1)) + static_cast<uint64_t>(cap) * static_cast<uint64_t>(pick(0, cap + 2)); break;  // a + cap*b: every (hash % cap, hash / cap % cap) class
      default: c.threads[t].probe = static_cast<uint64_t>(pick(0, cap)); break;  // near collisions
    }
  }
}

void
assign_starts(Case &c, int p_late)
{
  const int n = static_cast<int>(c.threads.size());
  for (int t = 1; t < n; t++) {
    if (chance(p_late)) {
      c.threads[t].sk = chance(60) ? vsched::kAfterBody : vsched::kAfterExit;
      c.threads[t].dep = pick(0, t - 1);
    }
  }
}

void
add_schedule(Case &c, int max_preempts, bool dense_ok)
{
  const int n = static_cast<int>(c.threads.size());
  auto est = [&](int t) { return 10 * static_cast<int>(c.threads[t].ops.size()) + 12; };
  const int style = weighted({1, 10, dense_ok ? 4 : 0});
  if (style == 1) {
    const int k = pick(1, max_preempts);
    for (int i = 0; i < k; i++) {
      const int t = pick(0, n - 1);
      c.sched.preempts.push_back({t, static_cast<uint32_t>(pick(0, est(t))), pick(0, 3)});
    }
  } else if (style == 2) {
    static const int dens[] = {5, 15, 35};
    const int d = dens[pick(0, 2)];
    for (int t = 0; t < n; t++) {
      for (int st = 0; st < est(t); st++) {
        if (chance(d)) c.sched.preempts.push_back({t, static_cast<uint32_t>(st), pick(0, 3)});
      }
    }
  }
}

// ---- IDManager-only cases (C05 C14 C15)
Case
gen_id_case(const std::string &p, int cap)
{
  Case c;
  c.cap = cap;
  c.use_epoch = false;
  const int maxthr = std::min<int>(vsched::kMaxT, cap + 3);
  int nthr = pick(1, maxthr);
  if (p == "C14" && chance(60)) nthr = pick(std::min(cap + 1, maxthr), maxthr);  // oversubscription
  if (p == "C15" && nthr < 2) nthr = 2;
  c.threads.resize(nthr);
  for (int t = 0; t < nthr; t++) {
    auto &ops = c.threads[t].ops;
    const int n = pick(1, 5);
    for (int k = 0; k < n; k++) {
      switch (weighted({5, p == "C15" ? 6 : 2, 2, 2, 3})) {
        case 0: ops.push_back(mk(GETID)); break;
        case 1: ops.push_back(mk(GETHB)); break;
        case 2: ops.push_back(mk(CHECKHB)); break;
        case 3: ops.push_back(mk(SPIN, static_cast<uint32_t>(pick(1, 6)))); break;
        default: ops.push_back(mk(YIELD)); break;
      }
    }
    if (p == "C15" && chance(70)) ops.insert(ops.begin(), mk(GETHB));
    if (p == "C05" && chance(8)) {
      ops.insert(ops.begin(), mk(GETID));
      ops.push_back(mk(YIELD, static_cast<uint32_t>(pick(150, 330))));
      ops.push_back(mk(GETID));
    }
    if (p == "C14" && chance(50)) {
      // a holder that stays in user code for a while after taking its ID
      ops.insert(ops.begin(), mk(GETID));
      const int extra = pick(4, 24);
      for (int k = 0; k < extra; k++) ops.push_back(mk(chance(75) ? YIELD : SPIN, static_cast<uint32_t>(pick(1, 4))));
      if (chance(15)) ops.push_back(mk(YIELD, static_cast<uint32_t>(pick(150, 330))));  // a very long-lived holder
    }
  }
  assign_probes(c, cap);
  assign_starts(c, p == "C15" ? 55 : 30);
  add_schedule(c, 6, true);
  return c;
}

// ---- EpochManager cases (C04 C16 C17): thread 0 is the only coordinator
Case
gen_epoch_case(const std::string &p, int cap)
{
  Case c;
  c.cap = cap;
  c.use_epoch = true;
  const int maxw = std::min<int>(vsched::kMaxT - 1, cap + 1);
  const int nworkers = pick(1, std::max(1, maxw));
  c.threads.resize(1 + nworkers);
  // coordinator
  {
    auto &ops = c.threads[0].ops;
    const bool with_id = cap >= 2 && chance(85);
    if (with_id) ops.push_back(mk(GETID));
    if (chance(p == "C17" ? 75 : 45)) {
      // land 0..3 epochs before a 256-epoch node boundary (512, 768, 1024)
      const int boundary = 256 * pick(1, 3);
      const int d = pick(0, 3);
      ops.push_back(mk(FWD_BULK, static_cast<uint32_t>(boundary - d)));
    } else if (chance(30)) {
      ops.push_back(mk(FWD_BULK, static_cast<uint32_t>(pick(1, 40))));
    }
    const int rounds = pick(1, 4);
    for (int r = 0; r < rounds; r++) {
      if (chance(60)) ops.push_back(mk(YIELD));
      switch (weighted({6, p == "C17" ? 4 : 1, 1})) {
        case 0: ops.push_back(mk(FWD, static_cast<uint32_t>(pick(1, 4)))); break;
        case 1: ops.push_back(mk(FWD_BULK, static_cast<uint32_t>(weighted({3, 2, 2}) == 0 ? pick(1, 8) : weighted({1, 1}) ? pick(250, 300) : pick(500, 620)))); break;
        default: ops.push_back(mk(SPIN, static_cast<uint32_t>(pick(1, 4)))); break;
      }
      if (chance(25)) ops.push_back(mk(READ_MIN));
      if (chance(25)) ops.push_back(mk(READ_CUR));
    }
    ops.push_back(mk(YIELD));
    ops.push_back(mk(FWD, static_cast<uint32_t>(pick(1, 3))));
  }
  for (int t = 1; t <= nworkers; t++) {
    auto &ops = c.threads[t].ops;
    if (chance(35)) ops.push_back(mk(chance(50) ? GETID : GETHB));
    const int rounds = pick(1, 3);
    for (int r = 0; r < rounds; r++) {
      if (chance(30)) ops.push_back(mk(YIELD));
      ops.push_back(mk(GUARD_NEW, static_cast<uint32_t>(p == "C17" ? weighted({1, 4}) : weighted({3, 2}))));
      const int inner = pick(0, 4);
      for (int k = 0; k < inner; k++) {
        switch (weighted({3, 2, 2, 2, 2, 2, 2})) {
          case 6: ops.push_back(mk(GUARD_REFRESH, static_cast<uint32_t>(pick(0, 1)))); break;
          case 0: ops.push_back(mk(YIELD)); break;
          case 1: ops.push_back(mk(READ_CUR)); break;
          case 2: ops.push_back(mk(READ_MIN)); break;
          case 3: ops.push_back(mk(CHECK_LIST)); break;
          case 4: ops.push_back(mk(GUARD_MOVE, static_cast<uint32_t>(pick(0, 1)))); break;
          default: ops.push_back(mk(SPIN, static_cast<uint32_t>(pick(1, 5)))); break;
        }
      }
      if ((p == "C16" && chance(10)) || (p == "C17" && chance(4))) {
        // two overlapping guards of one thread, destroyed in LIFO or in creation order; the thread lives on afterwards
        ops.push_back(mk(GUARD2_NEW));
        const int in2 = pick(0, 2);
        for (int k = 0; k < in2; k++) ops.push_back(mk(chance(50) ? YIELD : READ_CUR));
        const bool fifo = chance(55);
        ops.push_back(fifo ? mk(GUARD_END, static_cast<uint32_t>(pick(0, 2))) : mk(GUARD2_END));
        if (chance(40)) ops.push_back(mk(YIELD));
        ops.push_back(fifo ? mk(GUARD2_END) : mk(GUARD_END, static_cast<uint32_t>(pick(0, 2))));
        ops.push_back(mk(YIELD, static_cast<uint32_t>(pick(2, 12))));
      }
      if (chance(85)) ops.push_back(mk(GUARD_END, static_cast<uint32_t>(pick(0, 2))));
      if (chance(30)) ops.push_back(mk(READ_CUR));
    }
  }
  assign_probes(c, cap);
  c.threads[0].probe = static_cast<uint64_t>(pick(0, cap - 1));
  assign_starts(c, p == "C04" ? 45 : 25);
  c.threads[0].sk = vsched::kBegin;
  c.threads[0].dep = -1;
  add_schedule(c, 6, p != "C17");
  return c;
}
// ---- a scenario template for the epoch profiles: a *late reservation*. A worker is stalled somewhere inside
// CreateEpochGuard / GetProtectedEpochs (one preemption at a generated step, a second one 1-3 steps later) while the
// coordinator forwards across one or two 256-epoch node boundaries, and a long-lived holder keeps a guard (and its
// list) in an old node. Everything else (positions, lengths, who is pre-empted where) is generated.
Case
gen_late_reservation_case(const std::string &p, int cap)
{
  Case c;
  c.cap = cap;
  c.use_epoch = true;
  const int nextra = cap >= 3 ? pick(0, std::min(2, cap - 2)) : 0;
  c.threads.resize(3 + nextra);
  {
    auto &ops = c.threads[0].ops;
    if (cap >= 3 && chance(60)) ops.push_back(mk(GETID));
    switch (weighted({3, 3, 2})) {
      case 0: break;
      case 1: ops.push_back(mk(FWD_BULK, static_cast<uint32_t>(256 * pick(1, 3) - pick(0, 3)))); break;
      default: ops.push_back(mk(FWD_BULK, static_cast<uint32_t>(pick(1, 300)))); break;
    }
    ops.push_back(mk(YIELD));
    const int stalls = pick(1, 2);
    for (int k = 0; k < stalls; k++) {
      ops.push_back(mk(FWD_BULK, static_cast<uint32_t>(weighted({4, 3, 1}) == 0 ? pick(257, 300) : weighted({3, 1}) == 0 ? pick(500, 620) : pick(1, 40))));
      if (chance(30)) ops.push_back(mk(chance(50) ? READ_CUR : READ_MIN));
      ops.push_back(mk(YIELD));
      if (chance(70)) ops.push_back(mk(FWD, static_cast<uint32_t>(pick(1, 3))));
      if (chance(50)) ops.push_back(mk(YIELD));
    }
    ops.push_back(mk(FWD, static_cast<uint32_t>(pick(1, 3))));
    ops.push_back(mk(YIELD));
    ops.push_back(mk(FWD, static_cast<uint32_t>(pick(1, 2))));
  }
  {
    auto &ops = c.threads[1].ops;  // the holder
    if (chance(40)) ops.push_back(mk(GETID));
    if (chance(25)) {
      ops.push_back(mk(GUARD_NEW, static_cast<uint32_t>(pick(0, 1))));
      ops.push_back(mk(GUARD_END, static_cast<uint32_t>(pick(0, 2))));
    }
    ops.push_back(mk(GUARD_NEW, static_cast<uint32_t>(weighted({1, 3}))));
    const int n = pick(2, 6);
    for (int k = 0; k < n; k++) {
      switch (weighted({4, 3, 1, 1, 1})) {
        case 0: ops.push_back(mk(YIELD, static_cast<uint32_t>(weighted({3, 1}) == 0 ? 0 : pick(2, 30)))); break;
        case 1: ops.push_back(mk(CHECK_LIST)); break;
        case 2: ops.push_back(mk(READ_MIN)); break;
        case 3: ops.push_back(mk(GUARD_MOVE, static_cast<uint32_t>(pick(0, 1)))); break;
        default: ops.push_back(mk(READ_CUR)); break;
      }
    }
    if (chance(75)) ops.push_back(mk(YIELD, static_cast<uint32_t>(pick(5, 40))));  // usually outlasts the coordinator's script
    ops.push_back(mk(CHECK_LIST));
    if (chance(80)) ops.push_back(mk(GUARD_END, static_cast<uint32_t>(pick(0, 2))));
  }
  for (int t = 2; t < 3 + nextra; t++) {
    auto &ops = c.threads[t].ops;  // the stalled worker (and bystanders of the same shape)
    if (chance(50)) ops.push_back(mk(chance(50) ? GETID : GETHB));
    if (chance(65)) ops.push_back(mk(YIELD, static_cast<uint32_t>(pick(0, 2))));  // enter after the coordinator moved on
    const int rounds = pick(1, 2);
    for (int r = 0; r < rounds; r++) {
      ops.push_back(mk(GUARD_NEW, static_cast<uint32_t>(pick(0, 1))));
      const int inner = pick(0, 3);
      for (int k = 0; k < inner; k++) {
        switch (weighted({3, 2, 1, 1})) {
          case 0: ops.push_back(mk(YIELD)); break;
          case 1: ops.push_back(mk(CHECK_LIST)); break;
          case 2: ops.push_back(mk(GUARD_REFRESH, static_cast<uint32_t>(pick(0, 1)))); break;
          default: ops.push_back(mk(READ_CUR)); break;
        }
      }
      if (chance(85)) ops.push_back(mk(GUARD_END, static_cast<uint32_t>(pick(0, 2))));
      if (chance(30)) ops.push_back(mk(READ_CUR));
    }
  }
  assign_probes(c, cap);
  c.threads[0].probe = static_cast<uint64_t>(pick(0, cap - 1));
  if (chance(25)) {
    c.threads[2].sk = vsched::kAfterBody;  // the worker re-uses a slot whose previous owner is gone
    c.threads[2].dep = 1;
  }
  // the stall: two close preemptions of the worker, both handing the processor to the coordinator
  for (int t = 2; t < 3 + nextra; t++) {
    if (t > 2 && chance(50)) continue;
    const int x = chance(70) ? pick(0, 18) : pick(0, 10 * static_cast<int>(c.threads[t].ops.size()) + 8);
    c.sched.preempts.push_back({t, static_cast<uint32_t>(x), 0});
    if (chance(85)) c.sched.preempts.push_back({t, static_cast<uint32_t>(x + pick(1, 3)), chance(80) ? 0 : pick(0, 2)});
  }
  if (chance(30)) c.sched.preempts.push_back({pick(0, 1), static_cast<uint32_t>(pick(0, 60)), pick(0, 2)});
  (void)p;
  return c;
}
}  // namespace

namespace threadgen
{
Case
generate(const std::string &profile, int cap, uint64_t seed, uint64_t index)
{
  const bool id_only = profile == "C05" || profile == "C14" || profile == "C15";
  const auto g = rc::gen::exec([=] {
    if (id_only) return gen_id_case(profile, cap);
    if (cap >= 2 && chance(profile == "C17" ? 14 : 8)) return gen_late_reservation_case(profile, cap);
    return gen_epoch_case(profile, cap);
  });
  const rc::Random rnd(wk::splitmix(seed ^ wk::splitmix(index + 0x7654321ULL)));
  return g(rnd, 100).value();
}

bool
classify(const std::string &p, const Case &c, const Outcome &o, std::vector<std::string> &labels)
{
  labels.push_back("cap=" + std::to_string(c.cap));
  labels.push_back("threads=" + std::to_string(c.threads.size()));
  labels.push_back(std::string("sched=") + (c.sched.preempts.empty() ? "none" : c.sched.preempts.size() > 8 ? "dense" : "targeted"));
  if (o.probe_collision) labels.push_back("probe_collision");
  if (o.probe_wrapped) labels.push_back("probe_wrapped");
  if (o.waited_full) labels.push_back("waited_full");
  if (o.reuse_in_cleanup) labels.push_back("reuse_in_cleanup");
  if (o.reuse_after_exit) labels.push_back("reuse_after_exit");
  if (o.claim_overlaps_exit) labels.push_back("claim_overlaps_exit");
  if (o.fwd_with_foreign_guard) labels.push_back("fwd_with_foreign_guard");
  if (o.thread_churn) labels.push_back("thread_churn");
  if (o.quiescent_after_pinned) labels.push_back("quiescent_after_pinned");
  if (o.boundary_crossed) labels.push_back("boundary_crossed");
  if (o.fwd_inside_getprotected) labels.push_back("fwd_inside_getprotected");
  if (o.node_retired_under_guard) labels.push_back("node_retired_under_guard");
  if (static_cast<int>(c.threads.size()) > c.cap) labels.push_back("oversubscribed");
  if (o.overlapping_guards) labels.push_back("overlapping_guards");
  if (o.max_id >= 32) labels.push_back(o.max_id >= 64 ? "id>=64" : "id>=32");
  if (p == "C05") return o.probe_collision || o.probe_wrapped;
  if (p == "C14") return o.claim_overlaps_exit || o.waited_full;
  if (p == "C15") return o.reuse_in_cleanup || o.reuse_after_exit;
  if (p == "C04") return o.fwd_with_foreign_guard && o.thread_churn;
  if (p == "C16") return o.quiescent_after_pinned || o.boundary_crossed;
  if (p == "C17") return o.fwd_inside_getprotected || o.node_retired_under_guard;
  return o.ids_issued > 0;
}
}  // namespace threadgen
