// rapidcheck generators for lock-family cases (compiled WITHOUT the prelude).
// Every random choice is drawn from rc::gen; a case is a pure function of
// (profile, seed, index).
#include "gen_lock.hpp"

#include <rapidcheck.h>

#include "worker_common.hpp"

using namespace lockcase;  // NOLINT

namespace
{
struct Profile {
  std::string name;
  int cls_w[3] = {1, 1, 1};     // pess, opt, mcs
  int min_thr = 2, max_thr = 4;
  int min_txn = 1, max_txn = 3;
  int p_two_locks = 25;         // percent
  // transaction weights
  int w_s = 3, w_six = 3, w_x = 4, w_optread = 3, w_opttry = 3, w_prep = 2, w_juggle = 1, w_nested = 2;
  int p_juggle_inside = 10;     // percent: insert a move between two steps of a transaction
  int p_conv = 40;              // percent: conversions inside SIX/X transactions
  int p_setver = 30;
  int setver_fresh = 70;        // percent of SETVER values that are fresh (never republished)
  int p_republish = 5;          // percent of SETVER ops that republish the version current at acquisition
  int p_initver = 30;
  int p_late_start = 10;        // percent of threads that start after another one's body/exit
  // schedule styles (weights)
  int sw_none = 1, sw_targeted = 11, sw_dense = 5, sw_oplevel = 3;
  int max_preempts = 6;
  int p_casfail = 15;
  bool guard_level = false;     // only op-level preemption
  int p_prep_scn = 0;           // percent of OptimisticLock cases built around the PrepareRead fallback scenario
  int p_many = 12;              // per mille of cases in which one thread takes a large number of shared grants at once (S_MANY)
  int p_hold = 6;               // percent of X/SIX/S sections that are held for a long time (HOLD n: waiters exhaust their budgets)
  int p_tiny = 25;              // percent of cases that are tiny: one short transaction per thread, 1-3 early preemptions
  int p_nest = 0;               // percent of (non-MCS) cases that contain nested compatible grants of one thread on one lock
  int max_threads_hi = 4;       // thorough tier may raise
};

Profile
profile_of(const std::string &p)
{
  Profile f;
  f.name = p;
  if (p == "C01") {
    f.w_juggle = 1;
    f.p_prep_scn = 25;
    f.w_prep = 3;
  } else if (p == "C02") {
    f.p_conv = 55;
    f.w_nested = 3;
  } else if (p == "C03") {
    f.cls_w[0] = 0;
    f.cls_w[2] = 0;
    f.w_optread = 6;
    f.w_opttry = 6;
    f.w_x = 6;
    f.w_s = 1;
    f.w_six = 2;
    f.w_prep = 1;
    f.p_setver = 40;
    f.setver_fresh = 90;
    f.p_casfail = 30;
  } else if (p == "C07") {
    f.guard_level = true;
    f.p_tiny = 0;
    f.p_nest = 45;
    f.w_juggle = 6;
    f.p_juggle_inside = 45;
    f.sw_none = 4;
    f.sw_targeted = 0;
    f.sw_dense = 0;
    f.sw_oplevel = 8;
    f.p_casfail = 0;
    f.min_thr = 1;
    f.max_thr = 3;
  } else if (p == "C08") {
    f.p_republish = 35;
    f.p_setver = 45;
    f.w_opttry = 5;
    f.w_prep = 3;
    f.p_prep_scn = 12;
    f.w_juggle = 0;
    f.p_juggle_inside = 3;
    f.p_casfail = 20;
  } else if (p == "C09") {
    f.cls_w[0] = 0;
    f.cls_w[2] = 0;
    f.w_x = 8;
    f.w_six = 3;
    f.w_opttry = 4;
    f.w_optread = 3;
    f.p_setver = 60;
    f.setver_fresh = 30;
    f.p_initver = 70;
    f.p_juggle_inside = 25;
  } else if (p == "C10") {
    f.p_conv = 90;
    f.w_six = 6;
    f.w_x = 6;
    f.w_s = 3;
    f.w_optread = 1;
    f.w_opttry = 2;
    f.w_prep = 1;
  } else if (p == "C11") {
    f.cls_w[0] = 0;
    f.cls_w[1] = 0;
    f.min_thr = 3;
    f.max_thr = 6;
    f.max_txn = 2;
    f.p_tiny = 45;
    f.w_six = 5;
    f.p_two_locks = 0;
    f.p_conv = 15;
    f.w_juggle = 0;
    f.w_nested = 0;
    f.p_juggle_inside = 0;
    f.max_preempts = 8;
  } else if (p == "C12") {
    f.cls_w[0] = 0;
    f.cls_w[1] = 0;
    f.min_thr = 2;
    f.max_thr = 6;
    f.p_late_start = 45;
    f.p_two_locks = 35;
    f.w_s = 6;
  } else if (p == "C13") {
    f.cls_w[0] = 0;
    f.cls_w[2] = 0;
    f.w_prep = 9;
    f.p_prep_scn = 40;
    f.w_x = 6;
    f.w_s = 2;
    f.w_six = 2;
    f.w_optread = 1;
    f.w_opttry = 2;
    f.p_juggle_inside = 15;
  }
  return f;
}

int
pick(int lo, int hi)  // inclusive
{
  if (hi <= lo) return lo;
  return *rc::gen::inRange(lo, hi + 1);
}
bool
chance(int percent)
{
  return pick(0, 99) < percent;
}
int
weighted(std::initializer_list<int> w)
{
  int total = 0;
  for (int x : w) total += x;
  if (total <= 0) return 0;
  int r = pick(0, total - 1);
  int i = 0;
  for (int x : w) {
    if (r < x) return i;
    r -= x;
    i++;
  }
  return 0;
}

struct Builder {
  const Profile &f;
  int cls;
  int nlocks;
  uint32_t *fresh;
  std::vector<Op> ops;
  bool nesting = false;

  void
  emit(uint8_t code, int a = 0, int b = 0, int c = 0, uint32_t arg = 0)
  {
    Op o;
    o.code = code;
    o.a = static_cast<uint8_t>(a);
    o.b = static_cast<uint8_t>(b);
    o.c = static_cast<uint8_t>(c);
    o.arg = arg;
    ops.push_back(o);
  }

  // optional juggling of the transaction's guard between two steps
  void
  juggle(int kind, int &j)
  {
    if (!chance(f.p_juggle_inside)) return;
    switch (weighted({4, 3, 2, 1})) {
      case 0:
        emit(MOVE, kind, j, 1 - j);
        j = 1 - j;
        break;
      case 1: emit(MOVECTOR, kind, j); break;
      case 2: emit(SELFMOVE, kind, j); break;
      default:
        emit(REL, kind, 1 - j);  // releasing an empty sibling must have no effect
        break;
    }
  }

  void
  end(int kind, int j)
  {
    switch (weighted({5, 4, 1, 1})) {
      case 0: emit(REL, kind, j); break;
      case 1: emit(DROP, kind, j); break;
      case 2:
        emit(MOVE, kind, j, 1 - j);
        emit(weighted({1, 1}) ? REL : DROP, kind, 1 - j);
        break;
      default: break;  // left to the end of the thread
    }
  }

  uint32_t
  setver_value()
  {
    if (chance(f.setver_fresh)) return 1000U + 7U * (*fresh)++;
    switch (weighted({2, 2, 2, 1, 1, 3, 2})) {
      case 0: return 0U;
      case 1: return 0xFFFFFFFFU;
      case 2: return 0xFFFFFFFEU;
      case 3: return 0x80000000U;
      case 4: return 0x7FFFFFFFU;
      case 5: return static_cast<uint32_t>(pick(1, 4));
      default: return *rc::gen::arbitrary<uint32_t>();
    }
  }

  void
  maybe_hold()
  {
    if (chance(f.p_hold)) emit(HOLD, 0, 0, 0, static_cast<uint32_t>(weighted({3, 2, 1}) == 0 ? pick(5, 40) : weighted({1, 1}) ? pick(40, 120) : pick(200, 320)));
  }

  void
  x_body(int &jx)
  {
    maybe_hold();
    const int nw = pick(0, 2);
    for (int k = 0; k < nw; k++) {
      emit(WRITE, jx);
      juggle(kX, jx);
    }
    if (cls == kOpt) {
      if (chance(f.p_setver)) {
        if (chance(f.p_republish)) {
          emit(SETVER, jx, 0, 1, 0);
        } else {
          emit(SETVER, jx, 0, 0, setver_value());
        }
      }
      if (chance(25)) emit(XVER, jx);
      if (chance(10)) emit(SETVER, jx, 0, 0, setver_value());
    }
  }

  void
  after_x(int jx, int depth)
  {
    x_body(jx);
    if (depth < 3 && chance(f.p_conv)) {
      int ji = pick(0, 1);
      emit(DWN, jx, ji);
      juggle(kI, ji);
      if (chance(60)) emit(READ, kI, ji);
      after_six(ji, depth + 1);
    } else {
      end(kX, jx);
    }
  }

  void
  after_six(int ji, int depth)
  {
    maybe_hold();
    if (chance(50)) emit(READ, kI, ji);
    juggle(kI, ji);
    if (depth < 3 && chance(f.p_conv)) {
      int jx = pick(0, 1);
      emit(UPG, ji, jx);
      after_x(jx, depth + 1);
    } else {
      end(kI, ji);
    }
  }

  void
  s_sec(int l)
  {
    int j = pick(0, 1);
    emit(ACQ_S, l, j);
    maybe_hold();
    const int nr = pick(0, 2);
    for (int k = 0; k < nr; k++) {
      emit(READ, kS, j);
      juggle(kS, j);
    }
    end(kS, j);
  }
  void
  six_sec(int l)
  {
    int j = pick(0, 1);
    emit(ACQ_SIX, l, j);
    after_six(j, 0);
  }
  void
  x_sec(int l)
  {
    int j = pick(0, 1);
    emit(ACQ_X, l, j);
    after_x(j, 0);
  }
  void
  optread(int l)
  {
    int j = pick(0, 1);
    emit(GETVER, l, j);
    const int rounds = pick(1, 2);
    for (int r = 0; r < rounds; r++) {
      const int nr = pick(0, 2);
      for (int k = 0; k < nr; k++) emit(OPTREAD, kO, j);
      if (chance(10)) {
        emit(COPYOPT, j, 1 - j);
        j = 1 - j;
      }
      emit(VERIFY, j);
    }
  }
  void
  opttry(int l)
  {
    int jo = pick(0, 1);
    emit(GETVER, l, jo);
    if (chance(60)) emit(OPTREAD, kO, jo);
    if (chance(15)) emit(VERIFY, jo);
    const int m = weighted({3, 2, 4});
    int j = pick(0, 1);
    if (m == 0) {
      emit(TRY_S, jo, j);
      if (chance(70)) emit(READ, kS, j);
      juggle(kS, j);
      end(kS, j);
    } else if (m == 1) {
      emit(TRY_SIX, jo, j);
      after_six(j, 1);
    } else {
      emit(TRY_X, jo, j);
      after_x(j, 1);
    }
    if (chance(20)) emit(VERIFY, jo);
  }
  void
  prep(int l)
  {
    int j = pick(0, 1);
    emit(PREP, l, j);
    const int rounds = pick(1, 2);
    for (int r = 0; r < rounds; r++) {
      const int nr = pick(0, 2);
      for (int k = 0; k < nr; k++) emit(OPTREAD, kC, j);
      juggle(kC, j);
      emit(CVERIFY, j);
    }
    if (chance(20)) {
      emit(PREP, l, j);  // overwrite (possibly owning) guard by a new PrepareRead result
      emit(CVERIFY, j);
    }
    end(kC, j);
  }
  void
  juggle_txn()
  {
    const int n = pick(1, 4);
    for (int k = 0; k < n; k++) {
      const int kind = (cls == kOpt) ? weighted({3, 3, 3, 0, 2}) : weighted({3, 3, 3});
      const int j = pick(0, 1);
      switch (weighted({3, 3, 2, 2, 2, 1, 1})) {
        case 0: emit(MOVE, kind, j, 1 - j); break;
        case 1: emit(MOVECTOR, kind, j); break;
        case 2: emit(SELFMOVE, kind, j); break;
        case 3: emit(REL, kind, j); break;
        case 4: emit(DROP, kind, j); break;
        case 5: emit(UPG, j, pick(0, 1)); break;
        default: emit(DWN, j, pick(0, 1)); break;
      }
    }
  }

  // two compatible grants of this thread on one lock, then guard operations between them
  void
  nest_txn(int l)
  {
    emit(ACQ_S, l, 0);
    if (chance(70)) {
      emit(ACQ_S, l, 1);
      switch (weighted({5, 2, 2, 1})) {
        case 0: emit(MOVE, kS, pick(0, 1), 0); break;  // (a == b is skipped at run time)
        case 1: emit(MOVECTOR, kS, pick(0, 1)); break;
        case 2: emit(SELFMOVE, kS, pick(0, 1)); break;
        default: break;
      }
      if (chance(60)) emit(MOVE, kS, 1, 0);
      if (chance(50)) emit(MOVE, kS, 0, 1);
    } else {
      const int ji = pick(0, 1);
      emit(ACQ_SIX, l, ji);
      if (chance(50)) emit(READ, kI, ji);
      if (chance(40)) emit(MOVE, kI, ji, 1 - ji);
    }
    if (cls == kOpt && chance(30)) {
      emit(GETVER, l, 0);
      emit(TRY_S, 0, pick(0, 1));
    }
    if (chance(80)) emit(weighted({1, 1}) ? REL : DROP, kS, 0);
    if (chance(80)) emit(weighted({1, 1}) ? REL : DROP, kS, 1);
    if (chance(60)) emit(REL, kI, pick(0, 1));
  }

  void
  txn(int l, bool allow_nested)
  {
    if (nesting && chance(35)) {
      nest_txn(l);
      return;
    }
    const bool opt = cls == kOpt;
    const int t = weighted({f.w_s, f.w_six, f.w_x, opt ? f.w_optread : 0, opt ? f.w_opttry : 0, opt ? f.w_prep : 0, f.w_juggle,
                            (allow_nested && nlocks == 2 && l == 0) ? f.w_nested : 0});
    switch (t) {
      case 0: s_sec(l); break;
      case 1: six_sec(l); break;
      case 2: x_sec(l); break;
      case 3: optread(l); break;
      case 4: opttry(l); break;
      case 5: prep(l); break;
      case 6: juggle_txn(); break;
      default: {
        // hold lock 0, run a transaction on lock 1, release lock 0
        const int m = weighted({3, 2, 3});
        const int j = pick(0, 1);
        const int kind = m == 0 ? kS : m == 1 ? kI : kX;
        emit(m == 0 ? ACQ_S : m == 1 ? ACQ_SIX : ACQ_X, 0, j);
        if (m == 2 && chance(50)) emit(WRITE, j);
        // the inner transaction must not reuse the outer slot: use slot index 1-j by construction
        // where it matters (same kind); generated ops that collide are skipped/assign-over at run time
        txn(1, false);
        if (m == 2 && chance(50)) emit(WRITE, j);
        if (m != 2 && chance(50)) emit(READ, kind, j);
        end(kind, j);
        break;
      }
    }
  }
};

Case
gen_case(const Profile &f)
{
  Case c;
  c.cls = weighted({f.cls_w[0], f.cls_w[1], f.cls_w[2]});
  c.nlocks = chance(f.p_two_locks) ? 2 : 1;
  if (c.cls == kOpt) {
    for (int l = 0; l < c.nlocks; l++) {
      if (chance(f.p_initver)) {
        switch (weighted({3, 2, 2, 2})) {
          case 0: c.initver[l] = 0xFFFFFFFFU; break;
          case 1: c.initver[l] = 0xFFFFFFFEU; break;
          case 2: c.initver[l] = 0xFFFFFFFDU; break;
          default: c.initver[l] = *rc::gen::arbitrary<uint32_t>(); break;
        }
      }
    }
  }
  const bool tiny = chance(f.p_tiny);
  int nthr = tiny ? pick(std::max(2, f.min_thr), std::max(3, std::min(4, f.max_thr))) : pick(f.min_thr, f.max_thr);
  c.allow_nesting = c.cls != kMcs && chance(f.p_nest);
  uint32_t fresh = 0;
  c.threads.resize(nthr);
  for (int t = 0; t < nthr; t++) {
    Builder b{f, c.cls, c.nlocks, &fresh, {}, c.allow_nesting};
    const int ntx = tiny ? 1 : pick(f.min_txn, f.max_txn);
    for (int k = 0; k < ntx; k++) {
      const int l = c.nlocks == 2 ? pick(0, 1) : 0;
      b.txn(l, true);
    }
    // light structural noise: drop / duplicate an operation so that ill-formed leftovers occur too
    if (!b.ops.empty() && chance(8)) b.ops.erase(b.ops.begin() + pick(0, static_cast<int>(b.ops.size()) - 1));
    if (!b.ops.empty() && chance(5)) {
      const int k = pick(0, static_cast<int>(b.ops.size()) - 1);
      b.ops.insert(b.ops.begin() + k, b.ops[k]);
    }
    c.threads[t].ops = std::move(b.ops);
    if (t > 0 && chance(f.p_late_start)) {
      c.threads[t].sk = chance(50) ? vsched::kAfterBody : vsched::kAfterExit;
      c.threads[t].dep = pick(0, t - 1);
    }
  }
  // counter widths: one thread holds very many shared grants at once (guards are not bound to threads) while the others
  // run their generated transactions; on MCSLock only in single-thread cases (a later LockS of the same thread would
  // queue behind a writer that arrived meanwhile)
  if (!f.guard_level && pick(0, 999) < f.p_many) {
    static const uint32_t small[] = {31, 32, 33, 63, 64, 65, 127, 128, 129, 255, 256, 257, 511, 512, 1023, 1024, 1025, 4095, 4096, 4097};
    static const uint32_t large[] = {16383, 16384, 16385, 32767, 32768, 32769, 65535, 65536, 65537};
    const bool big = chance(30);
    uint32_t n = big ? large[pick(0, 8)] : small[pick(0, 19)];
    if (c.cls == kMcs) {
      c.threads.resize(1);
      if (n > 32760) n = 32760 - static_cast<uint32_t>(pick(0, 2));
    }
    const int t = pick(0, static_cast<int>(c.threads.size()) - 1);
    const int l = c.nlocks == 2 ? pick(0, 1) : 0;
    std::vector<Op> pre;
    Op o;
    o.code = S_MANY;
    o.a = static_cast<uint8_t>(l);
    o.arg = n;
    pre.push_back(o);
    Op h;
    h.code = HOLD;
    h.arg = static_cast<uint32_t>(pick(0, 40));
    pre.push_back(h);
    if (c.cls == kMcs || chance(80)) {
      Op r;
      r.code = S_MANY_REL;
      r.a = static_cast<uint8_t>(l);
      pre.push_back(r);  // (otherwise released at thread end)
    }
    auto &ops = c.threads[t].ops;
    if (c.cls != kMcs && chance(35) && !ops.empty()) {
      ops.insert(ops.end(), pre.begin(), pre.end());     // after the thread's own transactions
    } else {
      ops.insert(ops.begin(), pre.begin(), pre.end());
    }
  }
  nthr = static_cast<int>(c.threads.size());
  // PrepareRead fallback scenario: a writer holds X across the reader's optimistic attempts, releases, and a
  // third thread competes for S/SIX while the reader is in its locking fallback (optionally with a spurious CAS failure)
  bool prep_scn = false;
  if (c.cls == kOpt && nthr >= 2 && chance(f.p_prep_scn)) {
    prep_scn = true;
    const int l = c.nlocks == 2 ? pick(0, 1) : 0;
    Builder w{f, c.cls, c.nlocks, &fresh, {}, false};
    const int jx = pick(0, 1);
    w.emit(ACQ_X, l, jx);
    const int nw = pick(1, 3);
    for (int k = 0; k < nw; k++) w.emit(WRITE, jx);
    if (chance(40)) w.emit(DWN, jx, pick(0, 1));
    w.end(kX, jx);
    int aba_op = -1;
    if (chance(25)) {
      // ABA variant: a second exclusive section that republishes the version of the first one, started only after
      // the reader had a chance to sample the free word; the reader is then preempted densely in its fallback
      aba_op = static_cast<int>(w.ops.size());
      const int j2 = pick(0, 1);
      w.emit(ACQ_X, l, j2);
      w.emit(WRITE, j2);
      w.emit(SETVER, j2, 0, 1, 0);
      w.emit(weighted({1, 1}) ? REL : DROP, kX, j2);
    } else if (chance(60)) {
      w.x_sec(l);  // a second exclusive section: must not overlap a reader's shared grant
    } else if (chance(50)) {
      w.txn(l, false);
    }
    c.threads[0].ops = std::move(w.ops);
    Builder r{f, c.cls, c.nlocks, &fresh, {}, false};
    r.prep(l);
    if (chance(40)) r.prep(l);
    c.threads[1].ops = std::move(r.ops);
    if (nthr >= 3) {
      Builder q{f, c.cls, c.nlocks, &fresh, {}, false};
      switch (weighted({4, 2, 2, 3})) {
        case 0: q.s_sec(l); break;
        case 1: q.six_sec(l); break;
        case 2: q.x_sec(l); break;
        default: q.prep(l); break;
      }
      if (chance(50)) q.txn(l, false);
      c.threads[2].ops = std::move(q.ops);
    }
    // the writer is switched out while it holds X (right after ACQ_X or between its writes)
    c.oppre.push_back({0, static_cast<uint32_t>(pick(1, nw + 1)), 0});
    if (aba_op >= 0) {
      c.oppre.push_back({0, static_cast<uint32_t>(aba_op), 0});
      for (int st = 3; st < 40; st++) {
        if (chance(30)) c.sched.preempts.push_back({1, static_cast<uint32_t>(st), 0});
      }
    }
    if (chance(60)) c.sched.casfails.push_back({1, static_cast<uint32_t>(pick(0, 2))});
    if (nthr >= 3 && chance(50)) c.oppre.push_back({2, static_cast<uint32_t>(pick(0, 2)), pick(0, 1)});
  }
  (void)prep_scn;
  // schedule
  auto est_steps = [&](int t) { return 14 * static_cast<int>(c.threads[t].ops.size()) + 8; };
  const int style = f.guard_level ? (weighted({f.sw_none, 0, 0, f.sw_oplevel}))
                                  : weighted({f.sw_none, f.sw_targeted, f.sw_dense, f.sw_oplevel});
  if (tiny && !f.guard_level) {
    // protocol windows are a few steps wide and lie at the start of a call: early, densely placed preemptions
    const int k = pick(1, 3);
    for (int i = 0; i < k; i++) c.sched.preempts.push_back({pick(0, nthr - 1), static_cast<uint32_t>(pick(0, 14)), pick(0, 2)});
  } else if (style == 1) {
    const int k = pick(1, f.max_preempts);
    for (int i = 0; i < k; i++) {
      const int t = pick(0, nthr - 1);
      c.sched.preempts.push_back({t, static_cast<uint32_t>(pick(0, est_steps(t))), pick(0, 3)});
    }
    if (chance(35)) {
      // a burst: one thread is switched out two or three times within a few steps (inside one call), each time in
      // favour of a generated thread - windows that need two intruders between adjacent instructions of one operation
      const int t = pick(0, nthr - 1);
      int x = pick(0, est_steps(t));
      const int m = pick(2, 3);
      for (int j = 0; j < m; j++) {
        c.sched.preempts.push_back({t, static_cast<uint32_t>(x), pick(0, 3)});
        x += pick(1, 3);
      }
    }
  } else if (style == 2) {
    static const int dens[] = {3, 8, 20, 40};
    const int d = dens[pick(0, 3)];
    for (int t = 0; t < nthr; t++) {
      const int n = est_steps(t);
      for (int s = 0; s < n; s++) {
        if (chance(d)) c.sched.preempts.push_back({t, static_cast<uint32_t>(s), pick(0, 3)});
      }
    }
  } else if (style == 3) {
    const int k = pick(1, 6);
    for (int i = 0; i < k; i++) {
      const int t = pick(0, nthr - 1);
      const int n = static_cast<int>(c.threads[t].ops.size());
      if (n == 0) continue;
      c.oppre.push_back({t, static_cast<uint32_t>(pick(0, n - 1)), pick(0, 3)});
    }
    if (!f.guard_level && chance(40)) {
      const int t = pick(0, nthr - 1);
      c.sched.preempts.push_back({t, static_cast<uint32_t>(pick(0, est_steps(t))), pick(0, 3)});
    }
  }
  if (!f.guard_level && chance(f.p_casfail)) {
    const int k = pick(1, 3);
    for (int i = 0; i < k; i++) c.sched.casfails.push_back({pick(0, nthr - 1), static_cast<uint32_t>(pick(0, 10))});
  }
  return c;
}

}  // namespace

namespace lockgen
{
Case
generate(const std::string &profile, uint64_t seed, uint64_t index)
{
  const Profile f = profile_of(profile);
  const auto g = rc::gen::exec([f] { return gen_case(f); });
  const rc::Random rnd(wk::splitmix(seed ^ wk::splitmix(index + 0x1234567ULL)));
  return g(rnd, 100).value();
}

bool
classify(const std::string &p, const Case &c, const Outcome &o, std::vector<std::string> &labels)
{
  labels.push_back(std::string("class=") + kClsName[c.cls]);
  labels.push_back("threads=" + std::to_string(c.threads.size()));
  labels.push_back("locks=" + std::to_string(c.nlocks));
  if (o.many_shared != 0) labels.push_back(o.many_shared >= 65536 ? "many_shared>=65536" : o.many_shared >= 16384 ? "many_shared>=16384" : "many_shared<16384");
  labels.push_back(std::string("sched=") + (c.sched.preempts.empty() && c.oppre.empty() ? "none" : c.sched.preempts.size() > 8 ? "dense" : c.sched.preempts.empty() ? "oplevel" : "targeted"));
  if (!c.sched.casfails.empty()) labels.push_back("casfail");
  if (c.allow_nesting) labels.push_back("nested_grants");
  {
    size_t ops = 0;
    for (auto &t : c.threads) ops += t.ops.size();
    if (ops <= 5 * c.threads.size()) labels.push_back("tiny_program");
  }
  if (o.contended) labels.push_back("contended");
  if (o.waited_granted) labels.push_back("waited_granted");
  if (o.conv_raced) labels.push_back("conv_raced");
  if (o.conflict_sections) labels.push_back("conflict_sections");
  if (o.owning_move) labels.push_back("owning_move");
  if (o.later_conflict) labels.push_back("owning_move+later_conflict");
  if (o.validate_raced) labels.push_back("validate_raced");
  if (o.validated_ok) labels.push_back("validated_ok");
  if (o.x_end_dtor) labels.push_back("x_end_dtor");
  if (o.x_end_move) labels.push_back("x_end_move");
  if (o.x_end_dwn) labels.push_back("x_end_dwn");
  if (o.wrapped) labels.push_back("version_wrapped");
  if (o.prep_fallback) labels.push_back("prep_fallback");
  if (o.prep_seen_x) labels.push_back("prep_seen_x");
  if (o.two_waiting) labels.push_back("two_waiting");
  if (o.group_successor) labels.push_back("group_successor");
  if (!o.exact) labels.push_back("ghost_version_inexact");
  if (o.grants == 0) labels.push_back("no_grants");
  if (p == "C01") return o.contended;
  if (p == "C02") return o.waited_granted || o.conv_raced;
  if (p == "C03") return o.validate_raced;
  if (p == "C07") return o.owning_move && (o.later_conflict || c.threads.size() == 1);
  if (p == "C08") return o.conflict_sections;
  if (p == "C09") return o.x_end_dtor || o.x_end_move || o.x_end_dwn || o.wrapped;
  if (p == "C10") return o.conv_raced;
  if (p == "C11") return o.two_waiting;
  if (p == "C12") return o.group_successor || o.nodes_total >= 2;
  if (p == "C13") return o.prep_fallback || o.prep_seen_x;
  return o.grants > 0;
}

std::string
rule_text(const std::string &p)
{
  const std::string gen =
      "cases = (lock class, client program over the lock DSL, schedule) drawn from rapidcheck generators (transaction templates + structural noise; "
      "schedules: none / 1-6 targeted step-level preemptions / dense random preemptions / op-level preemptions, optional spurious weak-CAS failures); "
      "distinct = distinct 64-bit FNV hash of the case text (program + schedule); non-trivial = ";
  if (p == "C01") return gen + "a request was issued while another thread held or was requesting a conflicting mode on the same lock";
  if (p == "C02") return gen + "a request had to wait behind a conflicting grant/request and was later granted, or a conversion ran while another thread had a pending or granted request";
  if (p == "C03") return gen + "a validation (VerifyVersion/TryLock*) ran after another exclusive section was committed since the version was sampled, or failed";
  if (p == "C07") return gen + "a move/conversion involved an owning guard and (another thread later requested that lock, or the case is single-threaded and ends with the final LockX probe)";
  if (p == "C08") return gen + "two critical sections of different threads on one lock, at least one writing, both touched the payload";
  if (p == "C09") return gen + "an exclusive section ended (destructor / move assignment / downgrade) or the version wrapped around";
  if (p == "C10") return gen + "an upgrade/downgrade executed while another thread had a pending or granted request on the lock";
  if (p == "C11") return gen + ">= 2 announced requests were waiting on the MCS lock at the same time";
  if (p == "C12") return gen + "an X/SIX request arrived behind a shared group with >= 2 members, or >= 2 queue nodes were allocated";
  if (p == "C13") return gen + "PrepareRead fell back to a real shared lock or was called while an exclusive holder was registered";
  return gen + "at least one grant";
}
}  // namespace lockgen
