// libFuzzer target for the lock family (second engine, thorough tier). The byte
// string is decoded into a lock-DSL case (program + schedule) - every sub-string
// decodes to a valid case because ill-formed operations are skipped at run time -
// and executed under vsched against the real lock code; coverage feedback comes
// from the instrumented library and interpreter. The oracle is inside the
// target: a hit of an oracle kind owned by the property under check (env
// VERIF_FUZZ_KINDS) or a fatal verdict writes the case as a replay file, flushes
// the counters and traps. No prelude in this TU.
#include <fuzzer/FuzzedDataProvider.h>
#include <unistd.h>

#include "interp_lock.hpp"
#include "worker_common.hpp"

using namespace lockcase;  // NOLINT

namespace
{
wk::Counters C;
std::string g_out, g_prop = "C01";
std::set<std::string> g_kinds;
std::string g_curtext;
int g_phase = 0;
int g_clsmask = 7;

void
flush()
{
  if (g_out.empty()) return;
  C.done = true;
  wk::write_file(g_out + "/result.json", C.to_json());
}

[[noreturn]] void
on_fatal(vsched::Verdict v)
{
  const std::string name = v == vsched::kStepBound ? "STEPBOUND" : (g_phase >= 2 ? "FINAL_BUSY" : "STUCK");
  C.evaluations++;
  if (v == vsched::kStepBound) {
    // inconclusive, not a violation: the process cannot continue (threads are spinning), so end this worker quietly
    C.inconclusive++;
    flush();
    _exit(0);
  }
  C.report_kinds[name]++;
  if (g_kinds.count(name) != 0U) {
    const std::string fn = g_out + "/viol-" + std::to_string(C.evaluations) + "-" + name + ".case";
    wk::write_file(fn, g_curtext);
    C.viols.push_back({name, "no thread can make progress", fn, C.evaluations});
    flush();
    __builtin_trap();
  }
  flush();
  _exit(0);  // a foreign oracle kind (collateral): recorded, worker ends
}

void
split(const std::string &s, std::set<std::string> &out)
{
  size_t a = 0;
  while (a <= s.size()) {
    const size_t b = s.find(',', a);
    const std::string t = s.substr(a, b == std::string::npos ? std::string::npos : b - a);
    if (!t.empty()) out.insert(t);
    if (b == std::string::npos) break;
    a = b + 1;
  }
}
}  // namespace

extern "C" int
LLVMFuzzerInitialize(int *, char ***)
{
  if (const char *o = getenv("VERIF_FUZZ_OUT")) g_out = o;
  if (const char *p = getenv("VERIF_FUZZ_PROP")) g_prop = p;
  if (const char *k = getenv("VERIF_FUZZ_KINDS")) split(k, g_kinds);
  if (g_prop == "C03" || g_prop == "C09" || g_prop == "C13") g_clsmask = 2;
  if (g_prop == "C11" || g_prop == "C12") g_clsmask = 4;
  vsched::set_fatal_handler(on_fatal);
  atexit(flush);
  return 0;
}

extern "C" int
LLVMFuzzerTestOneInput(const uint8_t *data, size_t size)
{
  if (size < 6) return 0;
  FuzzedDataProvider f(data, size);
  Case c;
  // class restricted by the property under check
  int cls = f.ConsumeIntegralInRange<int>(0, 2);
  for (int k = 0; k < 3 && ((g_clsmask >> cls) & 1) == 0; k++) cls = (cls + 1) % 3;
  c.cls = cls;
  c.nlocks = f.ConsumeIntegralInRange<int>(1, 2);
  const int nthr = f.ConsumeIntegralInRange<int>(1, 4);
  c.threads.resize(nthr);
  if (c.cls == kOpt && f.ConsumeBool()) c.initver[0] = f.ConsumeBool() ? 0xFFFFFFFFU : f.ConsumeIntegral<uint32_t>();
  const bool guard_level = g_prop == "C07";
  c.allow_nesting = guard_level && c.cls != kMcs && f.ConsumeBool();
  const int npre = f.ConsumeIntegralInRange<int>(0, 6);
  for (int i = 0; i < npre; i++) {
    const int t = f.ConsumeIntegralInRange<int>(0, nthr - 1);
    if (guard_level || f.ConsumeIntegralInRange<int>(0, 3) == 0) {
      c.oppre.push_back({t, f.ConsumeIntegralInRange<uint32_t>(0, 9), f.ConsumeIntegralInRange<int>(0, 3)});
    } else {
      c.sched.preempts.push_back({t, f.ConsumeIntegralInRange<uint32_t>(0, 90), f.ConsumeIntegralInRange<int>(0, 3)});
    }
  }
  if (!guard_level && f.ConsumeBool()) c.sched.casfails.push_back({f.ConsumeIntegralInRange<int>(0, nthr - 1), f.ConsumeIntegralInRange<uint32_t>(0, 8)});
  // remaining bytes: operations, round-robin over the threads' lists by an explicit thread selector
  int total = 0;
  while (f.remaining_bytes() >= 2 && total < 36) {
    const int t = f.ConsumeIntegralInRange<int>(0, nthr - 1);
    Op op;
    op.code = static_cast<uint8_t>(f.ConsumeIntegralInRange<int>(0, kNumOps - 1));
    const uint8_t b = f.ConsumeIntegral<uint8_t>();
    op.a = static_cast<uint8_t>(b & 7U);
    op.b = static_cast<uint8_t>((b >> 3U) & 3U);
    op.c = static_cast<uint8_t>((b >> 5U) & 1U);
    switch (op.code) {
      case ACQ_S: case ACQ_SIX: case ACQ_X: case GETVER: case PREP: op.a = static_cast<uint8_t>(op.a % c.nlocks); break;
      case REL: case DROP: case MOVE: case MOVECTOR: case SELFMOVE: case READ: case OPTREAD: op.a = static_cast<uint8_t>(op.a % 5); break;
      case SETVER: {
        static const uint32_t vals[] = {0U, 1U, 2U, 0xFFFFFFFFU, 0xFFFFFFFEU, 0x80000000U, 1000U, 1007U};
        op.arg = (b & 0x80U) != 0 ? vals[(b >> 3U) & 7U] : 2000U + 7U * static_cast<uint32_t>(total);
        break;
      }
      case HOLD: op.arg = static_cast<uint32_t>(b); break;
      case S_MANY: op.arg = 2U + 260U * static_cast<uint32_t>(b); break;
      default: break;
    }
    if (c.threads[t].ops.size() < 12) c.threads[t].ops.push_back(op);
    total++;
  }
  g_curtext = to_text(c);
  vsched::clear_reports();
  Outcome oc;
  vsched::Config cfg;
  lockinterp::run_case(c, cfg, oc, &g_phase);
  C.evaluations++;
  C.steps = vsched::total_steps();
  C.skipped_ops += oc.skipped;
  C.executed_ops += oc.executed;
  C.excluded_known += oc.excluded_known;
  const bool nt = oc.contended || oc.conv_raced || oc.validate_raced || oc.prep_fallback || oc.two_waiting || oc.owning_move || oc.conflict_sections;
  if (nt) {
    C.nontrivial++;
    C.nontrivial_hashes.insert(wk::fnv(g_curtext));
    if (C.samples.size() < 3) C.samples.push_back(g_curtext);
  }
  C.labels[std::string("class=") + kClsName[c.cls]]++;
  bool owned = false;
  std::string kind, msg;
  for (auto &r : vsched::reports()) {
    C.report_kinds[r.kind]++;
    if (!owned && g_kinds.count(r.kind) != 0U) {
      owned = true;
      kind = r.kind;
      msg = r.msg;
    }
  }
  if (owned) {
    const std::string fn = g_out + "/viol-" + std::to_string(C.evaluations) + "-" + kind + ".case";
    if (!g_out.empty()) {
      wk::write_file(fn, g_curtext);
      C.viols.push_back({kind, msg, fn, C.evaluations});
    }
    fprintf(stderr, "ORACLE %s: %s\n", kind.c_str(), msg.c_str());
    flush();
    __builtin_trap();
  }
  return 0;
}
