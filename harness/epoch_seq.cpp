// C20: sequential EpochManager histories against a reference set model, with
// rapidcheck's state-machine mode (rc::state) and native shrinking. No prelude:
// the repository sources are compiled unmodified; helper OS threads execute one
// command at a time, so nothing runs concurrently with ForwardGlobalEpoch.
//   epoch_seq --replay FILE
//   epoch_seq --gen --seed S --count N --out DIR [--big]
#include <fcntl.h>
#include <unistd.h>

#include <rapidcheck.h>
#include <rapidcheck/state.h>

#include <condition_variable>
#include <functional>
#include <mutex>
#include <optional>
#include <thread>

#include "dbgroup/thread/epoch_manager.hpp"
#include "worker_common.hpp"

using dbgroup::thread::EpochGuard;
using dbgroup::thread::EpochManager;

/*------------------------------------------------------------------------------ list-node accounting */
namespace
{
std::atomic<long> g_live64{0};
std::atomic<long> g_frees64{0};
}  // namespace
void *
operator new(std::size_t n, std::align_val_t a)
{
  void *p = nullptr;
  if (posix_memalign(&p, static_cast<size_t>(a), n ? n : 1) != 0) throw std::bad_alloc();
  if (static_cast<size_t>(a) == 64) g_live64.fetch_add(1);
  return p;
}
void
operator delete(void *p, std::align_val_t a) noexcept
{
  if (p != nullptr && static_cast<size_t>(a) == 64) {
    g_live64.fetch_sub(1);
    g_frees64.fetch_add(1);
  }
  std::free(p);
}
void
operator delete(void *p, std::size_t, std::align_val_t a) noexcept
{
  operator delete(p, a);
}

namespace
{
// one helper per remaining ID for the small capacities; the large-capacity variant (IDs >= 32 and >= 64 come from
// hash(thread id) % capacity) uses a handful of helpers
constexpr int kHelpers = DBGROUP_MAX_THREAD_NUM - 1 < 7 ? DBGROUP_MAX_THREAD_NUM - 1 : 7;

// a helper OS thread that executes closures one at a time
class Helper
{
 public:
  Helper() : th_([this] { loop(); }) {}
  ~Helper() { stop(); }
  void
  run(std::function<void()> f)
  {
    std::unique_lock lk(m_);
    job_ = std::move(f);
    has_ = true;
    cv_.notify_all();
    cv_.wait(lk, [this] { return !has_; });
  }
  void
  stop()
  {
    if (!th_.joinable()) return;
    {
      std::unique_lock lk(m_);
      quit_ = true;
      cv_.notify_all();
    }
    th_.join();
  }

 private:
  void
  loop()
  {
    std::unique_lock lk(m_);
    while (true) {
      cv_.wait(lk, [this] { return has_ || quit_; });
      if (has_) {
        job_();
        has_ = false;
        cv_.notify_all();
      } else if (quit_) {
        return;
      }
    }
  }
  std::mutex m_;
  std::condition_variable cv_;
  std::function<void()> job_;
  bool has_ = false;
  bool quit_ = false;
  std::thread th_;
};

struct Model {
  size_t cur = EpochManager::kInitialEpoch;
  std::map<int, size_t> pinned;
};

struct Stats {
  bool retired_while_older_pinned = false;
  bool destroyed_with_3_nodes = false;
  bool boundary = false;
  long forwards = 0;
  long max_live = 0;
};

struct Sut {
  EpochManager *mgr = nullptr;
  std::unique_ptr<Helper> h[kHelpers > 0 ? kHelpers : 1];
  std::optional<EpochGuard> guard[kHelpers > 0 ? kHelpers : 1];
  std::string trace;
  Stats st;
  long base_live = 0;
  Sut()
  {
    base_live = g_live64.load();
    mgr = new EpochManager{};
    for (int i = 0; i < kHelpers; i++) h[i] = std::make_unique<Helper>();
  }
  ~Sut() { teardown(nullptr); }
  long live() const { return g_live64.load() - base_live; }
  // releases every guard, stops the helpers, destroys the manager; returns leaked nodes
  long
  teardown(std::string *err)
  {
    if (mgr == nullptr) return 0;
    for (int i = 0; i < kHelpers; i++) {
      if (h[i]) {
        h[i]->run([this, i] { guard[i].reset(); });
        h[i]->stop();
        h[i].reset();
      }
    }
    if (live() >= 3) st.destroyed_with_3_nodes = true;
    delete mgr;
    mgr = nullptr;
    const long leaked = live();
    if (leaked != 0 && err != nullptr) *err = std::to_string(leaked) + " list node(s) still allocated after the EpochManager was destroyed";
    return leaked;
  }
};

std::string g_last_fail_trace;
int g_cur_fd = -1;  // gen mode: the history executed so far is always on disk, so that a sanitizer abort can be replayed

template <class S>
void
note(S &s, const std::string &line)
{
  s.trace += line;
  if (g_cur_fd >= 0) {
    const std::string t = "family epochseq\ncap " + std::to_string(DBGROUP_MAX_THREAD_NUM) + "\n" + s.trace;
    (void)!pwrite(g_cur_fd, t.data(), t.size(), 0);
    (void)!ftruncate(g_cur_fd, static_cast<off_t>(t.size()));
  }
}
std::string g_last_fail_msg;

void
fail(Sut &s, const std::string &msg)
{
  g_last_fail_trace = s.trace;
  g_last_fail_msg = msg;
  RC_FAIL(msg);
}

std::vector<size_t>
expected_list(const Model &m, size_t newe)
{
  std::set<size_t, std::greater<size_t>> st{newe, newe - 1};
  for (auto &[t, e] : m.pinned) st.insert(e);
  return {st.begin(), st.end()};
}

std::string
show_list(const std::vector<size_t> &l)
{
  std::string s = "{";
  for (auto v : l) s += " " + std::to_string(v);
  return s + " }";
}

// one forward + all oracles; m is the model BEFORE the forward
void
forward_once(const Model &m, Sut &s)
{
  const long frees0 = g_frees64.load();
  s.mgr->ForwardGlobalEpoch();
  s.st.forwards++;
  const size_t newe = m.cur + 1;
  if ((newe & 255U) == 0) s.st.boundary = true;
  if (s.mgr->GetCurrentEpoch() != newe) fail(s, "GetCurrentEpoch is " + std::to_string(s.mgr->GetCurrentEpoch()) + ", expected " + std::to_string(newe));
  const auto want = expected_list(m, newe);
  // memory bound: distinct 256-epoch ranges holding the new, previous or a pinned epoch, plus a constant
  std::set<size_t> ranges;
  for (auto v : want) ranges.insert(v >> 8U);
  const long live = s.live();
  s.st.max_live = std::max(s.st.max_live, live);
  if (live > static_cast<long>(ranges.size()) + 2) {
    fail(s, std::to_string(live) + " list nodes are allocated after the forward to " + std::to_string(newe) + " but only " + std::to_string(ranges.size())
                + " 256-epoch ranges contain a pinned or current epoch");
  }
  if (g_frees64.load() > frees0 && !m.pinned.empty()) {
    size_t oldest = ~0UL;
    for (auto &[t, e] : m.pinned) oldest = std::min(oldest, e);
    if ((oldest >> 8U) + 1 < (newe >> 8U)) s.st.retired_while_older_pinned = true;
  }
  {
    auto [g, list] = s.mgr->GetProtectedEpochs();
    if (g.GetProtectedEpoch() != newe) fail(s, "observer guard reports epoch " + std::to_string(g.GetProtectedEpoch()) + ", expected " + std::to_string(newe));
    if (list != want) fail(s, "list published for epoch " + std::to_string(newe) + " is " + show_list(list) + " but the model says " + show_list(want));
  }
  if (s.mgr->GetMinEpoch() != want.back()) {
    fail(s, "GetMinEpoch is " + std::to_string(s.mgr->GetMinEpoch()) + " but the smallest protected epoch is " + std::to_string(want.back()));
  }
}

using Cmd = rc::state::Command<Model, Sut>;

struct Pin : Cmd {
  int t;
  int via;
  Pin() : t(*rc::gen::inRange(0, kHelpers)), via(*rc::gen::inRange(0, 2)) {}
  Pin(int tt, int v) : t(tt), via(v) {}
  void checkPreconditions(const Model &m) const override { RC_PRE(m.pinned.count(t) == 0); }
  void apply(Model &m) const override { m.pinned[t] = m.cur; }
  void
  run(const Model &m, Sut &s) const override
  {
    note(s, "Pin " + std::to_string(t) + " " + std::to_string(via) + "\n");
    size_t e = 0;
    s.h[t]->run([&] {
      if (via == 0) {
        s.guard[t].emplace(s.mgr->CreateEpochGuard());
      } else {
        auto [g, l] = s.mgr->GetProtectedEpochs();
        s.guard[t].emplace(std::move(g));
      }
      e = s.guard[t]->GetProtectedEpoch();
    });
    if (e != m.cur) fail(s, "a guard created at epoch " + std::to_string(m.cur) + " reports " + std::to_string(e));
  }
  void show(std::ostream &os) const override { os << "Pin(" << t << "," << via << ")"; }
};

struct Unpin : Cmd {
  int t;
  Unpin() : t(*rc::gen::inRange(0, kHelpers)) {}
  explicit Unpin(int tt) : t(tt) {}
  void checkPreconditions(const Model &m) const override { RC_PRE(m.pinned.count(t) == 1); }
  void apply(Model &m) const override { m.pinned.erase(t); }
  void
  run(const Model &, Sut &s) const override
  {
    note(s, "Unpin " + std::to_string(t) + "\n");
    s.h[t]->run([&] { s.guard[t].reset(); });
  }
  void show(std::ostream &os) const override { os << "Unpin(" << t << ")"; }
};

// the refresh idiom: assign a newly created guard over the live one
struct Refresh : Cmd {
  int t;
  int via;
  Refresh() : t(*rc::gen::inRange(0, kHelpers)), via(*rc::gen::inRange(0, 2)) {}
  Refresh(int tt, int v) : t(tt), via(v) {}
  void checkPreconditions(const Model &m) const override { RC_PRE(m.pinned.count(t) == 1); }
  void apply(Model &m) const override { m.pinned[t] = m.cur; }
  void
  run(const Model &m, Sut &s) const override
  {
    note(s, "Refresh " + std::to_string(t) + " " + std::to_string(via) + "\n");
    size_t e = 0;
    s.h[t]->run([&] {
      if (via == 0) {
        *s.guard[t] = s.mgr->CreateEpochGuard();
      } else {
        auto [g, l] = s.mgr->GetProtectedEpochs();
        *s.guard[t] = std::move(g);
      }
      e = s.guard[t]->GetProtectedEpoch();
    });
    if (e != m.cur) fail(s, "a guard refreshed at epoch " + std::to_string(m.cur) + " reports " + std::to_string(e));
  }
  void show(std::ostream &os) const override { os << "Refresh(" << t << "," << via << ")"; }
};

struct Forward : Cmd {
  int n;
  Forward()
  {
    switch (*rc::gen::inRange(0, 6)) {
      case 0: n = 1; break;
      case 1: n = *rc::gen::inRange(1, 6); break;
      case 2: n = *rc::gen::inRange(1, 40); break;
      case 3: n = *rc::gen::inRange(200, 300); break;
      case 4: n = *rc::gen::inRange(250, 262); break;
      default: n = *rc::gen::inRange(1, 1001); break;
    }
  }
  explicit Forward(int nn) : n(nn) {}
  void apply(Model &m) const override { m.cur += static_cast<size_t>(n); }
  void
  run(const Model &m, Sut &s) const override
  {
    note(s, "Forward " + std::to_string(n) + "\n");
    Model mm = m;
    for (int k = 0; k < n; k++) {
      forward_once(mm, s);
      mm.cur++;
    }
  }
  void show(std::ostream &os) const override { os << "Forward(" << n << ")"; }
};

struct ExitAndReplace : Cmd {
  int t;
  ExitAndReplace() : t(*rc::gen::inRange(0, kHelpers)) {}
  explicit ExitAndReplace(int tt) : t(tt) {}
  void checkPreconditions(const Model &m) const override { RC_PRE(m.pinned.count(t) == 0); }
  void apply(Model &) const override {}
  void
  run(const Model &, Sut &s) const override
  {
    note(s, "ExitAndReplace " + std::to_string(t) + "\n");
    s.h[t]->stop();
    s.h[t] = std::make_unique<Helper>();
  }
  void show(std::ostream &os) const override { os << "ExitAndReplace(" << t << ")"; }
};

struct RunStats {
  wk::Counters C;
};
RunStats *g_rs = nullptr;

// executes one explicit history (replay / corpus); returns failure message or ""
std::string
run_trace(const std::string &text, Stats *st_out)
{
  std::string failmsg;
  try {
    Model m;
    Sut s;
    std::istringstream in(text);
    std::string line;
    while (std::getline(in, line)) {
      if (line.empty() || line[0] == '#') continue;
      std::istringstream ls(line);
      std::string w;
      int a = 0, b = 0;
      ls >> w >> a >> b;
      std::unique_ptr<Cmd> c;
      if (w == "Pin") c = std::make_unique<Pin>(a % std::max(1, kHelpers), b);
      else if (w == "Unpin") c = std::make_unique<Unpin>(a % std::max(1, kHelpers));
      else if (w == "Refresh") c = std::make_unique<Refresh>(a % std::max(1, kHelpers), b);
      else if (w == "Forward") c = std::make_unique<Forward>(a);
      else if (w == "ExitAndReplace") c = std::make_unique<ExitAndReplace>(a % std::max(1, kHelpers));
      else continue;
      try {
        c->checkPreconditions(m);
      } catch (...) {
        continue;  // ill-formed step of a hand-edited file: skipped
      }
      c->run(m, s);
      c->apply(m);
    }
    std::string err;
    if (s.teardown(&err) != 0) failmsg = err;
    if (st_out) *st_out = s.st;
  } catch (const rc::detail::CaseResult &r) {
    failmsg = r.description;
  } catch (const std::exception &e) {
    failmsg = e.what();
  }
  return failmsg;
}

}  // namespace

int
main(int argc, char **argv)
{
  std::string mode, file, out;
  uint64_t seed = 1, count = 100, start = 0;
  bool big = false;
  for (int i = 1; i < argc; i++) {
    std::string a = argv[i];
    auto next = [&]() -> std::string { return i + 1 < argc ? argv[++i] : ""; };
    if (a == "--replay") { mode = "replay"; file = next(); }
    else if (a == "--gen") mode = "gen";
    else if (a == "--seed") seed = strtoull(next().c_str(), nullptr, 10);
    else if (a == "--count") count = strtoull(next().c_str(), nullptr, 10);
    else if (a == "--out") out = next();
    else if (a == "--big") big = true;
    else if (a == "--start") start = strtoull(next().c_str(), nullptr, 10);
    else if (a == "--profile") next();
  }
  if (mode == "replay") {
    Stats st;
    const std::string msg = run_trace(wk::read_file(file), &st);
    if (!msg.empty()) printf("REPORT EPOCHSEQ: %s\n", msg.c_str());
    printf("VERDICT %s forwards=%ld max_live_nodes=%ld\n", msg.empty() ? "ok" : "REPORTS", st.forwards, st.max_live);
    return msg.empty() ? 0 : 10;
  }
  if (mode != "gen" || out.empty()) {
    fprintf(stderr, "usage: epoch_seq --replay FILE | --gen --seed S --count N --out DIR [--big]\n");
    return 2;
  }
  mkdir(out.c_str(), 0777);
  g_cur_fd = open((out + "/cur.case").c_str(), O_CREAT | O_RDWR | O_TRUNC, 0644);
  // a restart after an abnormal end (start > 0) continues with a different stream
  if (start > 0) seed = wk::splitmix(seed ^ wk::splitmix(start));
  const std::string params = "seed=" + std::to_string(seed) + " max_success=" + std::to_string(count) + " max_size=" + std::to_string(big ? 300 : 120) + " max_discard_ratio=50";
  setenv("RC_PARAMS", params.c_str(), 1);
  wk::Counters C;
  const bool ok = rc::check("C20: EpochManager keeps exactly the lists it needs and frees them all", [&C] {
    Model m0;
    Sut sut;
    rc::state::check(m0, sut, rc::state::gen::execOneOfWithArgs<Pin, Unpin, Refresh, Forward, Forward, ExitAndReplace>());
    std::string err;
    if (sut.teardown(&err) != 0) fail(sut, err);
    C.evaluations++;
    const bool nt = sut.st.retired_while_older_pinned || sut.st.destroyed_with_3_nodes;
    C.labels[sut.st.retired_while_older_pinned ? "retired_while_older_pinned" : "no_retire_under_pin"]++;
    if (sut.st.destroyed_with_3_nodes) C.labels["destroyed_with>=3_nodes"]++;
    if (sut.st.boundary) C.labels["boundary_crossed"]++;
    C.steps += static_cast<uint64_t>(sut.st.forwards);
    if (nt) {
      C.nontrivial++;
      C.nontrivial_hashes.insert(wk::fnv(sut.trace));
      if (C.samples.size() < 3) C.samples.push_back(sut.trace);
    }
  });
  if (!ok) {
    C.report_kinds["EPOCHSEQ"]++;
    const std::string fn = out + "/viol-0-EPOCHSEQ.case";
    wk::write_file(fn, "family epochseq\ncap " + std::to_string(DBGROUP_MAX_THREAD_NUM) + "\n" + g_last_fail_trace);
    C.viols.push_back({"EPOCHSEQ", g_last_fail_msg, fn, 0});
    C.evaluations++;
  }
  C.next_index = start + count;
  C.done = true;
  wk::write_file(out + "/result.json", C.to_json());
  return 0;
}
