// Lock DSL interpreter + ghost oracles (compiled WITH the prelude, against the
// repository's current lock sources).
#include "dbgroup/lock/mcs_lock.hpp"
#include "dbgroup/lock/optimistic_lock.hpp"
#include "dbgroup/lock/pessimistic_lock.hpp"

#include "interp_lock.hpp"

using namespace lockcase;  // NOLINT
using vsched::report;

namespace
{
using dbgroup::lock::MCSLock;
using dbgroup::lock::OptimisticLock;
using dbgroup::lock::PessimisticLock;

constexpr int kMaxT = vsched::kMaxT;

inline bool
conflicts(int a, int b)
{
  if (a == 0 || b == 0) return false;
  if (a == 3 || b == 3) return true;
  return a == 2 && b == 2;
}
const char *kModeName[] = {"-", "S", "SIX", "X"};

struct Req {
  int thread;
  int mode;
  uint64_t begin = 0;    // stamp when the call was entered
  uint64_t arrival = 0;  // stamp of the first value-changing write to the lock object (0 = none yet)
  bool granted = false;
};

struct Ghost {
  // grant registry: per thread the multiset of grants it holds on this lock (nested compatible
  // grants S+S / S+SIX by one thread are possible on Pessimistic/OptimisticLock)
  int32_t ns[kMaxT] = {};        // shared grants (incl. PrepareRead fallback)
  bool six[kMaxT] = {};
  bool xx[kMaxT] = {};
  bool converted[kMaxT] = {};    // the registered SIX/X grant was obtained through UPG/DWN
  int
  mode(int t) const
  {
    return xx[t] ? 3 : six[t] ? 2 : ns[t] > 0 ? 1 : 0;
  }
  void
  add(int t, int m)
  {
    if (m == 1) ns[t]++;
    if (m == 2) six[t] = true;
    if (m == 3) xx[t] = true;
  }
  void
  del(int t, int m)
  {
    if (m == 1 && ns[t] > 0) ns[t]--;
    if (m == 2) six[t] = false;
    if (m == 3) xx[t] = false;
    if (!six[t] && !xx[t]) converted[t] = false;
  }
  int
  count(int t) const
  {
    return ns[t] + (six[t] ? 1 : 0) + (xx[t] ? 1 : 0);
  }
  int8_t inreq[kMaxT] = {};      // mode of the request call the thread is inside
  bool inconv[kMaxT] = {};       // thread is inside UpgradeToX/DowngradeToSIX
  bool inrel[kMaxT] = {};        // thread is inside a releasing call (the grant is still outstanding for node accounting)
  bool sec_read[kMaxT] = {};     // thread ran a section that read / wrote the payload
  bool sec_write[kMaxT] = {};
  vsched::plain a, b;
  uint32_t gver = 0;
  uint64_t commits = 0;
  bool exact = true;
  bool republished = false;
  std::vector<uint32_t> published;
  std::vector<Req> reqs;
  uint64_t arrseq = 0;
  int cur_req[kMaxT];
  const void *lo = nullptr;
  const void *hi = nullptr;
  bool prep_conflict[kMaxT] = {};
  bool prep_wrote[kMaxT] = {};
  int prep_writes[kMaxT] = {};   // value-changing writes to the lock object by the running PrepareRead call
};

struct SlotModel {
  bool owns = false;
  int lock = -1;
  bool converted = false;
  // X
  uint32_t base_ver = 0;
  bool has_set = false;
  uint32_t set_ver = 0;
  // O / C
  bool bound = false;
  uint32_t ver = 0;
  uint64_t commits_at_sample = 0;
  uint64_t val_at_sample = 0;
  std::vector<std::pair<uint64_t, uint64_t>> reads;
};

struct Ctx {
  const Case *c = nullptr;
  Ghost g[2];
  Outcome out;
  uint64_t stamp = 0;
  int phase = 0;  // 0 prologue, 1 main, 2 final
  int started = 0;
  int exited = 0;
  bool is_mcs = false;
  std::vector<std::vector<uint32_t>> oppre;  // per thread: op index -> target+1
};
Ctx *X = nullptr;

void
arrival_cb(int tag)
{
  // called inside the atomic write: first value-changing write of the current
  // request to the lock object
  auto &g = X->g[tag];
  const int me = vsched::self();
  const int r = g.cur_req[me];
  if (r >= 0 && g.reqs[r].arrival == 0) {
    g.reqs[r].arrival = ++g.arrseq;
    int waiting = 0;
    for (auto &q : g.reqs) {
      if (!q.granted && q.arrival != 0) waiting++;
    }
    if (waiting >= 2) X->out.two_waiting = true;
    if (g.reqs[r].mode >= 2) {
      int members = 0;
      for (int t = 0; t < kMaxT; t++) {
        if (t != me && (g.mode(t) == 1 || g.inreq[t] == 1)) members++;
      }
      if (members >= 2) X->out.group_successor = true;
    }
  }
}

void
prep_cb(int tag)
{
  auto &g = X->g[tag];
  const int me = vsched::self();
  for (int t = 0; t < kMaxT; t++) {
    if (g.mode(t) != 0) g.prep_conflict[me] = true;
  }
  g.prep_wrote[me] = true;
  g.prep_writes[me]++;
}

template <class L>
struct IsOpt : std::false_type {
};
template <>
struct IsOpt<OptimisticLock> : std::true_type {
};

template <class L, bool = IsOpt<L>::value>
struct OptSlots {
};
template <class L>
struct OptSlots<L, true> {
  typename L::OptGuard o[2];
  typename L::CompositeGuard c[2];
};

template <class L>
struct TState : OptSlots<L> {
  typename L::SGuard s[2];
  typename L::SIXGuard i[2];
  typename L::XGuard x[2];
  SlotModel m[5][2];
  std::vector<typename L::SGuard> many[2];  // S_MANY: a large number of shared grants of this thread on lock 0 / 1
};

template <class L>
struct Interp {
  L *lk;  // array of nlocks
  int me = -1;
  TState<L> *ts = nullptr;

  /*--------------------------------------------------------------------------
   * well-formedness (the property's own quantifier)
   *------------------------------------------------------------------------*/
  int
  held_mode(int l) const
  {
    int best = (l >= 0 && l < 2 && !ts->many[l].empty()) ? 1 : 0;
    for (int k : {kS, kI, kX, kC}) {
      for (int j = 0; j < 2; j++) {
        const auto &m = ts->m[k][j];
        if (m.owns && m.lock == l) best = std::max(best, k == kI ? 2 : k == kX ? 3 : 1);
      }
    }
    return best;
  }
  int
  own_shared(int l) const
  {
    int n = 0;
    for (int k : {kS, kC}) {
      for (int j = 0; j < 2; j++) {
        if (ts->m[k][j].owns && ts->m[k][j].lock == l) n++;
      }
    }
    return n;
  }
  // nested requests of one thread on one lock are outside C02's quantifier and can self-deadlock on
  // MCSLock (queue order); on Pessimistic/OptimisticLock compatible nesting (S+S, S+SIX) is legal
  // client behaviour that C07 quantifies over. Only generated when the case asks for it.
  bool
  nest_ok(int l, int mode) const
  {
    if (!X->c->allow_nesting || X->is_mcs) return false;
    const int own = held_mode(l);
    if (mode == 1) return own == 1 || own == 2;  // S under own S or SIX is granted without waiting for anybody
    // SIX while holding S can wait for a foreign SIX holder whose upgrade waits for our S: client-made deadlock
    if (mode == 2) return own == 1 && X->c->threads.size() == 1;
    return false;
  }
  bool
  holds_above(int l) const
  {
    for (int k = l + 1; k < 2; k++) {
      if (k >= 0 && !ts->many[k].empty()) return true;
    }
    for (int k : {kS, kI, kX, kC}) {
      for (int j = 0; j < 2; j++) {
        const auto &m = ts->m[k][j];
        if (m.owns && m.lock > l) return true;
      }
    }
    return false;
  }
  // Known finding KF-C02-MCS-SIXREL: releasing an MCS SIX grant waits until the shared holders
  // granted ahead of it have left, so it behaves like a blocking request on that lock. It is
  // excluded by construction (and counted): such a release is only issued while the thread holds
  // no lock with a higher index (new_lock = lock about to be held in addition, or -1).
  bool
  release_ok(const SlotModel &m, int kind, int new_lock = -1) const
  {
    if (!m.owns || !X->is_mcs || kind != kI || X->c->allow_blocking_release) return true;
    if (holds_above(m.lock) || new_lock > m.lock) {
      X->out.excluded_known++;
      return false;
    }
    return true;
  }
  bool can_request(int l, int mode) const { return l < X->c->nlocks && !holds_above(l) && ts->many[l & 1].empty() && (held_mode(l) == 0 || nest_ok(l, mode)); }
  bool can_wait_version(int l) const { return l < X->c->nlocks && held_mode(l) != 3 && !holds_above(l); }

  /*--------------------------------------------------------------------------
   * C12 (iv): a queue node that was handed back for reuse (it sits in this thread's cache) must not be
   * touched by any other thread. The cache slot is a private member: read with -fno-access-control when it
   * exists under that name, otherwise this sub-oracle is off.
   *------------------------------------------------------------------------*/
  void
  cache_watch(bool call_entry, bool releasing = false)
  {
    if constexpr (requires { L::tls_node_.get(); }) {
      if (call_entry && releasing) {
        // a releasing call may put a node into the cache when it ends, but the node that already sits there has been
        // handed back: nobody - the owner included - may touch it during this call
        vsched::region_include_owner(me, true);
      } else if (call_entry) {
        vsched::region_clear(me);  // the owner may take the node out of its cache and publish it again
      } else if (auto *n = L::tls_node_.get(); n != nullptr) {
        vsched::region_set(me, n, reinterpret_cast<const char *>(n) + sizeof(L), "STALE-NODE", "a queue node that was handed back for reuse (thread cache)");
      } else {
        vsched::region_clear(me);
      }
    }
  }

  /*--------------------------------------------------------------------------
   * ghost registry
   *------------------------------------------------------------------------*/
  void
  req_begin(int l, int mode)
  {
    auto &g = X->g[l];
    g.inreq[me] = static_cast<int8_t>(mode);
    bool cont = false;
    for (int t = 0; t < kMaxT; t++) {
      if (t == me) continue;
      if (conflicts(mode, g.mode(t)) || conflicts(mode, g.inreq[t])) cont = true;
      if (g.inconv[t]) X->out.conv_raced = true;
    }
    if (cont) X->out.contended = true;
    pending_cont = cont;
    if (X->out.owning_move_lock[l] && mode >= 1) X->out.later_conflict = true;
    g.reqs.push_back(Req{me, mode, ++g.arrseq});
    g.cur_req[me] = static_cast<int>(g.reqs.size()) - 1;
    vsched::watch_set(0, g.lo, g.hi, l, arrival_cb);
    vsched::heap_lib_scope(true);
    cache_watch(true);
  }
  bool pending_cont = false;

  // the request call returned without a grant (failed TryLock*)
  void
  req_abort(int l)
  {
    auto &g = X->g[l];
    vsched::heap_lib_scope(false);
    cache_watch(false);
    vsched::watch_clear(0);
    g.inreq[me] = 0;
    const int r = g.cur_req[me];
    if (r >= 0) g.reqs[r].granted = true;  // no longer pending
    g.cur_req[me] = -1;
  }

  void
  grant(int l, int mode, const char *via, bool conv = false)
  {
    auto &g = X->g[l];
    vsched::heap_lib_scope(false);
    cache_watch(false);
    vsched::watch_clear(0);
    g.inreq[me] = 0;
    for (int t = 0; t < kMaxT; t++) {
      if (t == me) continue;
      if (conflicts(mode, g.mode(t))) {
        const bool c10 = conv || g.converted[t];
        report(c10 ? "EXCLUSION-CONV" : "EXCLUSION", std::string("lock ") + std::to_string(l) + ": " + kModeName[mode] + " granted via " + via
                                                         + " to T" + std::to_string(me) + " while T" + std::to_string(t) + " holds "
                                                         + kModeName[g.mode(t)]);
      }
    }
    g.add(me, mode);
    if (mode >= 2) g.converted[me] = conv;
    X->out.grants++;
    if (!conv) {
      const int r = g.cur_req[me];
      if (r >= 0) {
        auto &mine = g.reqs[r];
        mine.granted = true;
        if (pending_cont) X->out.waited_granted = true;
        if (X->is_mcs) {
          // A request that never wrote the lock object cannot have announced itself before its
          // call began: its arrival is bounded below by the stamp taken at call entry.
          const uint64_t my_arrival = mine.arrival != 0 ? mine.arrival : mine.begin;
          for (auto &q : g.reqs) {
            if (!q.granted && q.arrival != 0 && q.arrival < my_arrival && conflicts(q.mode, mine.mode)) {
              report("ORDER", std::string("lock ") + std::to_string(l) + ": T" + std::to_string(me) + " " + kModeName[mode]
                                  + (mine.arrival != 0 ? " (arrival #" + std::to_string(mine.arrival) + ")" : " (never announced itself on the lock object; call entered at #" + std::to_string(mine.begin) + ")")
                                  + " granted before conflicting T" + std::to_string(q.thread) + " " + kModeName[q.mode] + " (arrival #"
                                  + std::to_string(q.arrival) + ")");
            }
          }
        }
        g.cur_req[me] = -1;
      }
    }
    check_nodes("grant");
  }

  void
  unregister(int l, int kind)
  {
    X->g[l].del(me, kind == kI ? 2 : kind == kX ? 3 : 1);
  }

  void
  check_nodes(const char *where)
  {
    if (!X->is_mcs) return;
    const auto hs = vsched::heap_stats();
    long outstanding = 0;
    for (int l = 0; l < X->c->nlocks; l++) {
      for (int t = 0; t < kMaxT; t++) {
        outstanding += X->g[l].count(t) + (X->g[l].inreq[t] != 0 ? 1 : 0) + (X->g[l].inrel[t] ? 1 : 0);
      }
    }
    const long bound = (X->started - X->exited) + outstanding;
    if (hs.live > bound) {
      report("NODE_BOUND", std::string("live queue nodes ") + std::to_string(hs.live) + " > threads " + std::to_string(X->started - X->exited)
                               + " + outstanding " + std::to_string(outstanding) + " at " + where);
    }
  }

  /*--------------------------------------------------------------------------
   * payload
   *------------------------------------------------------------------------*/
  uint64_t
  read_payload(int l, const char *under)
  {
    auto &g = X->g[l];
    const auto x = g.a.read();
    const auto y = g.b.read();
    if (x != y) report("TORN", std::string("lock ") + std::to_string(l) + ": payload a=" + std::to_string(x) + " b=" + std::to_string(y) + " read under " + under);
    note_section(l, false);
    return x;
  }
  void
  write_payload(int l)
  {
    auto &g = X->g[l];
    const uint64_t s = (++X->stamp) * 16 + static_cast<uint64_t>(me);
    g.a.write(s);
    g.b.write(s);
    note_section(l, true);
  }
  void
  note_section(int l, bool w)
  {
    auto &g = X->g[l];
    for (int t = 0; t < kMaxT; t++) {
      if (t == me) continue;
      if ((w && (g.sec_read[t] || g.sec_write[t])) || (!w && g.sec_write[t])) X->out.conflict_sections = true;
    }
    if (w) {
      g.sec_write[me] = true;
    } else {
      g.sec_read[me] = true;
    }
  }

  /*--------------------------------------------------------------------------
   * X-section end on OptimisticLock: release and ghost version update are one
   * atomic step for the schedule.
   *------------------------------------------------------------------------*/
  template <class F>
  void
  end_grant(SlotModel &m, int kind, const char *how, F &&action)
  {
    if (!m.owns) {
      action();
      return;
    }
    const int l = m.lock;
    auto &g = X->g[l];
    if constexpr (IsOpt<L>::value) {
      if (kind == kX) {
        vsched::harness_point();
        vsched::nopreempt_enter();
        unregister(l, kind);
        action();
        const uint32_t nv = m.has_set ? m.set_ver : m.base_ver + 1U;
        if (!m.has_set && m.base_ver == 0xFFFFFFFFU) X->out.wrapped = true;
        for (auto p : g.published) {
          if (p == nv) g.republished = true;
        }
        g.published.push_back(nv);
        g.gver = nv;
        g.commits++;
        if (!vsched::nopreempt_leave()) g.exact = false;
        if (!std::strcmp(how, "dtor")) X->out.x_end_dtor = true;
        if (!std::strcmp(how, "move")) X->out.x_end_move = true;
        m.owns = false;
        vsched::harness_point();
        return;
      }
    }
    unregister(l, kind);
    g.inrel[me] = true;
    vsched::heap_lib_scope(true);
    cache_watch(true, true);
    action();
    vsched::heap_lib_scope(false);
    cache_watch(false);
    g.inrel[me] = false;
    m.owns = false;
    check_nodes("release");
  }

  void
  release_many(int l)
  {
    auto &v = ts->many[l];
    if (v.empty()) return;
    auto &g = X->g[l];
    vsched::nopreempt_enter();
    g.ns[me] -= static_cast<int32_t>(v.size()) - 1;  // (before the releases: the registry stays a subset of what is held)
    if (g.ns[me] < 1) g.ns[me] = 1;
    g.inrel[me] = true;
    vsched::heap_lib_scope(true);
    while (v.size() > 1) {
      cache_watch(true, true);
      v.pop_back();
      cache_watch(false);
    }
    vsched::heap_lib_scope(false);
    g.inrel[me] = false;
    vsched::nopreempt_leave();
    SlotModel tm;
    tm.owns = true;
    tm.lock = l;
    end_grant(tm, kS, "dtor", [&] { v.pop_back(); });
  }

  /*--------------------------------------------------------------------------
   * slot access
   *------------------------------------------------------------------------*/
  template <class G>
  static void
  destroy_and_renew(G &g)
  {
    g.~G();
    new (&g) G{};
  }

  void
  check_bools(const char *after)
  {
    for (int j = 0; j < 2; j++) {
      if (static_cast<bool>(ts->s[j]) != ts->m[kS][j].owns) report("BOOL", std::string("SGuard s") + std::to_string(j) + " bool=" + (ts->s[j] ? "1" : "0") + " but model owns=" + (ts->m[kS][j].owns ? "1" : "0") + " after " + after);
      if (static_cast<bool>(ts->i[j]) != ts->m[kI][j].owns) report("BOOL", std::string("SIXGuard i") + std::to_string(j) + " bool=" + (ts->i[j] ? "1" : "0") + " but model owns=" + (ts->m[kI][j].owns ? "1" : "0") + " after " + after);
      if (static_cast<bool>(ts->x[j]) != ts->m[kX][j].owns) report("BOOL", std::string("XGuard x") + std::to_string(j) + " bool=" + (ts->x[j] ? "1" : "0") + " but model owns=" + (ts->m[kX][j].owns ? "1" : "0") + " after " + after);
      if constexpr (IsOpt<L>::value) {
        if (static_cast<bool>(ts->o[j])) report("BOOL", std::string("OptGuard o") + std::to_string(j) + " converts to true after " + after);
        if (static_cast<bool>(ts->c[j]) != ts->m[kC][j].owns) report("BOOL", std::string("CompositeGuard c") + std::to_string(j) + " bool=" + (ts->c[j] ? "1" : "0") + " but model owns=" + (ts->m[kC][j].owns ? "1" : "0") + " after " + after);
      }
    }
  }

  template <class F>
  void
  with_slot(int kind, int j, F &&f)
  {
    switch (kind) {
      case kS: f(ts->s[j]); break;
      case kI: f(ts->i[j]); break;
      case kX: f(ts->x[j]); break;
      case kC:
        if constexpr (IsOpt<L>::value) f(ts->c[j]);
        break;
      default: break;
    }
  }

  void
  note_owning_move(const SlotModel &m)
  {
    if (m.owns) {
      X->out.owning_move = true;
      X->out.owning_move_lock[m.lock] = true;
    }
  }

  /*--------------------------------------------------------------------------
   * sampling an optimistic version
   *------------------------------------------------------------------------*/
  void
  sample(SlotModel &m, int l, uint32_t ver)
  {
    auto &g = X->g[l];
    m.bound = true;
    m.lock = l;
    m.ver = ver;
    m.commits_at_sample = g.commits;
    m.val_at_sample = g.a.v;
    m.reads.clear();
  }

  bool
  x_active_elsewhere(int l) const
  {
    const auto &g = X->g[l];
    for (int t = 0; t < kMaxT; t++) {
      if (t != me && g.xx[t]) return true;
    }
    return false;
  }

  // exact + snapshot oracle for a validation that just returned
  void
  judge_validation(SlotModel &m, bool res, uint32_t before, uint32_t after, const char *what, bool composite)
  {
    const int l = m.lock;
    auto &g = X->g[l];
    const char *kres = composite ? "CVERSION-RESULT" : "VERSION-RESULT";
    const char *kref = composite ? "CVERSION-REFRESH" : "VERSION-REFRESH";
    const char *kx = composite ? "CVERSION-X" : "VERSION-X";
    const char *ksnap = composite ? "CSNAPSHOT" : "SNAPSHOT";
    if (g.commits != m.commits_at_sample || !res) X->out.validate_raced = true;
    if (res) X->out.validated_ok = true;
    if (g.exact) {
      const bool expected = (g.gver == before);
      if (res != expected) {
        report(kres, std::string(what) + " on lock " + std::to_string(l) + " returned " + (res ? "success" : "failure") + " but guard carried "
                         + std::to_string(before) + " and the lock's version is " + std::to_string(g.gver));
      }
      if (after != g.gver) {
        report(kref, std::string(what) + " on lock " + std::to_string(l) + " left the guard carrying " + std::to_string(after)
                         + " but the lock's version is " + std::to_string(g.gver));
      }
    }
    if (x_active_elsewhere(l)) report(kx, std::string(what) + " on lock " + std::to_string(l) + " returned while an exclusive holder is active");
    if (res && !g.republished) {
      bool bad = g.commits != m.commits_at_sample;
      for (auto &rd : m.reads) {
        if (rd.first != rd.second || rd.first != m.val_at_sample) bad = true;
      }
      if (bad) {
        report(ksnap, std::string(what) + " on lock " + std::to_string(l) + " succeeded although " + std::to_string(g.commits - m.commits_at_sample)
                          + " exclusive section(s) were committed since the version was obtained / a speculative read was inconsistent");
      }
    }
    m.ver = after;
    if (!res) {
      m.commits_at_sample = g.commits;
      m.val_at_sample = g.a.v;
    }
    m.reads.clear();
  }

  /*--------------------------------------------------------------------------
   * operations
   *------------------------------------------------------------------------*/
  template <class G, class F>
  void
  acquire(int l, int mode, int kind, int j, const char *via, F &&call)
  {
    if (!can_request(l, mode) || !release_ok(ts->m[kind][j], kind, l)) {
      X->out.skipped++;
      return;
    }
    req_begin(l, mode);
    G gd = call();
    grant(l, mode, via);
    if (!gd) report("BOOL", std::string(via) + " returned a guard that converts to false");
    store_new(kind, j, l, std::move(gd));
  }

  // move a freshly obtained owning guard into slot (kind, j), releasing what the slot held
  template <class G>
  void
  store_new(int kind, int j, int l, G &&gd, bool conv = false)
  {
    auto &m = ts->m[kind][j];
    with_slot(kind, j, [&](auto &slot) {
      if constexpr (std::is_same_v<std::decay_t<decltype(slot)>, std::decay_t<G>>) {
        end_grant(m, kind, "move", [&] { slot = std::move(gd); });
      }
    });
    m = SlotModel{};
    m.owns = true;
    m.lock = l;
    m.converted = conv;
    if (kind == kX) {
      m.base_ver = X->g[l].gver;
    }
  }

  void
  exec(const Op &op)
  {
    X->out.executed++;
    switch (op.code) {
      case ACQ_S: acquire<typename L::SGuard>(op.a, 1, kS, op.b & 1, "LockS", [&] { return lk[op.a].LockS(); }); break;
      case ACQ_SIX: acquire<typename L::SIXGuard>(op.a, 2, kI, op.b & 1, "LockSIX", [&] { return lk[op.a].LockSIX(); }); break;
      case ACQ_X: acquire<typename L::XGuard>(op.a, 3, kX, op.b & 1, "LockX", [&] { return lk[op.a].LockX(); }); break;
      case REL: {
        const int kind = op.a, j = op.b & 1;
        if (kind > kC || kind == kO) break;
        auto &m = ts->m[kind][j];
        if (!release_ok(m, kind)) {
          X->out.skipped++;
          break;
        }
        with_slot(kind, j, [&](auto &slot) {
          using G = std::decay_t<decltype(slot)>;
          end_grant(m, kind, "move", [&] { slot = G{}; });
        });
        m = SlotModel{};
        break;
      }
      case DROP: {
        const int kind = op.a, j = op.b & 1;
        if (kind > kC || kind == kO) break;
        auto &m = ts->m[kind][j];
        if (!release_ok(m, kind)) {
          X->out.skipped++;
          break;
        }
        with_slot(kind, j, [&](auto &slot) { end_grant(m, kind, "dtor", [&] { destroy_and_renew(slot); }); });
        m = SlotModel{};
        break;
      }
      case MOVE: {
        const int kind = op.a, ja = op.b & 1, jb = op.c & 1;
        if (kind > kC || kind == kO || ja == jb) break;
        auto &ma = ts->m[kind][ja];
        auto &mb = ts->m[kind][jb];
        if (!release_ok(mb, kind)) {
          X->out.skipped++;
          break;
        }
        note_owning_move(ma);
        note_owning_move(mb);
        with_slot(kind, ja, [&](auto &sa) {
          with_slot(kind, jb, [&](auto &sb) {
            if constexpr (std::is_same_v<decltype(sa), decltype(sb)>) {
              end_grant(mb, kind, "move", [&] { sb = std::move(sa); });
            }
          });
        });
        mb = ma;
        ma = SlotModel{};
        break;
      }
      case MOVECTOR: {
        const int kind = op.a, j = op.b & 1;
        if (kind > kC || kind == kO) break;
        auto &m = ts->m[kind][j];
        note_owning_move(m);
        with_slot(kind, j, [&](auto &slot) {
          using G = std::decay_t<decltype(slot)>;
          G tmp{std::move(slot)};
          if (static_cast<bool>(slot)) report("BOOL", "moved-from guard (move construction) still converts to true");
          if (static_cast<bool>(tmp) != m.owns) report("BOOL", "move-constructed guard has wrong ownership");
          slot = std::move(tmp);  // slot is empty: nothing is released here
          if (static_cast<bool>(tmp)) report("BOOL", "moved-from guard (move assignment) still converts to true");
        });
        break;
      }
      case SELFMOVE: {
        const int kind = op.a, j = op.b & 1;
        if (kind > kC || kind == kO) break;
        auto &m = ts->m[kind][j];
        note_owning_move(m);
        with_slot(kind, j, [&](auto &slot) {
          using G = std::decay_t<decltype(slot)>;
          G tmp{};
          tmp = std::move(slot);
          if (static_cast<bool>(slot)) report("BOOL", "moved-from guard (move assignment) still converts to true");
          slot = std::move(tmp);
        });
        break;
      }
      case UPG: {
        const int ji = op.a & 1, jx = op.b & 1;
        auto &mi = ts->m[kI][ji];
        auto &mx = ts->m[kX][jx];
        if (!mi.owns) {
          // conversion of an empty guard: must yield an empty guard and touch nothing
          auto gd = ts->i[ji].UpgradeToX();
          if (gd) report("BOOL", "UpgradeToX on a non-owning guard returned an owning guard");
          end_grant(mx, kX, "move", [&] { ts->x[jx] = std::move(gd); });
          mx = SlotModel{};
          break;
        }
        const int l = mi.lock;
        if (holds_above(l) || (mx.owns && mx.lock == l) || own_shared(l) > 0) {
          X->out.skipped++;
          break;
        }
        note_owning_move(mi);
        auto &g = X->g[l];
        const auto v0 = read_payload(l, "SIX (before upgrade)");
        g.inconv[me] = true;
        for (int t = 0; t < kMaxT; t++) {
          if (t != me && (g.mode(t) != 0 || g.inreq[t] != 0)) X->out.conv_raced = true;
        }
        vsched::heap_lib_scope(true);
        cache_watch(true);
        auto gd = ts->i[ji].UpgradeToX();
        vsched::heap_lib_scope(false);
        cache_watch(false);
        g.inconv[me] = false;
        // registry: SIX -> X without a gap; every S holder must be gone
        g.del(me, 2);
        grant(l, 3, "UpgradeToX", true);
        if (!gd) report("BOOL", "UpgradeToX on an owning guard returned a guard that converts to false");
        mi = SlotModel{};
        store_new(kX, jx, l, std::move(gd), true);
        const auto v1 = read_payload(l, "X (after upgrade)");
        if (v0 != v1) report("GAP", std::string("lock ") + std::to_string(l) + ": payload read under SIX was " + std::to_string(v0) + " but is " + std::to_string(v1) + " after UpgradeToX returned");
        break;
      }
      case DWN: {
        const int jx = op.a & 1, ji = op.b & 1;
        auto &mx = ts->m[kX][jx];
        auto &mi = ts->m[kI][ji];
        if (!release_ok(mi, kI, mx.owns ? mx.lock : -1)) {
          X->out.skipped++;
          break;
        }
        if (!mx.owns) {
          auto gd = ts->x[jx].DowngradeToSIX();
          if (gd) report("BOOL", "DowngradeToSIX on a non-owning guard returned an owning guard");
          end_grant(mi, kI, "move", [&] { ts->i[ji] = std::move(gd); });
          mi = SlotModel{};
          break;
        }
        const int l = mx.lock;
        if (mi.owns && mi.lock == l) {
          X->out.skipped++;
          break;
        }
        note_owning_move(mx);
        auto &g = X->g[l];
        write_payload(l);
        const auto v0 = g.a.v;
        for (int t = 0; t < kMaxT; t++) {
          if (t != me && (g.mode(t) != 0 || g.inreq[t] != 0)) X->out.conv_raced = true;
        }
        typename L::SIXGuard gd{};
        if constexpr (IsOpt<L>::value) {
          vsched::harness_point();
          vsched::nopreempt_enter();
          gd = ts->x[jx].DowngradeToSIX();
          const uint32_t nv = mx.has_set ? mx.set_ver : mx.base_ver + 1U;
          if (!mx.has_set && mx.base_ver == 0xFFFFFFFFU) X->out.wrapped = true;
          for (auto p : g.published) {
            if (p == nv) g.republished = true;
          }
          g.published.push_back(nv);
          g.gver = nv;
          g.commits++;
          g.del(me, 3);
          g.add(me, 2);
          g.converted[me] = true;
          if (!vsched::nopreempt_leave()) g.exact = false;
          X->out.x_end_dwn = true;
          vsched::harness_point();
        } else {
          // registry: X -> SIX *before* the call. The registry must stay a subset of what is
          // actually held; X implies everything SIX excludes, and shared requests may be
          // granted as soon as the downgrade's write is visible, i.e. before the call returns.
          g.del(me, 3);
          g.add(me, 2);
          g.converted[me] = true;
          g.inconv[me] = true;
          vsched::heap_lib_scope(true);
          cache_watch(true);
          gd = ts->x[jx].DowngradeToSIX();
          vsched::heap_lib_scope(false);
          cache_watch(false);
          g.inconv[me] = false;
        }
        if (!gd) report("BOOL", "DowngradeToSIX on an owning guard returned a guard that converts to false");
        mx = SlotModel{};
        store_new(kI, ji, l, std::move(gd), true);
        const auto v1 = read_payload(l, "SIX (after downgrade)");
        if (v0 != v1) report("GAP", std::string("lock ") + std::to_string(l) + ": payload written under X was " + std::to_string(v0) + " but is " + std::to_string(v1) + " after DowngradeToSIX returned");
        break;
      }
      case READ: {
        const int kind = op.a, j = op.b & 1;
        if (kind != kS && kind != kI && kind != kX && kind != kC) break;
        auto &m = ts->m[kind][j];
        if (!m.owns) {
          X->out.skipped++;
          break;
        }
        read_payload(m.lock, kind == kX ? "X" : kind == kI ? "SIX" : "S");
        break;
      }
      case WRITE: {
        auto &m = ts->m[kX][op.a & 1];
        if (!m.owns) {
          X->out.skipped++;
          break;
        }
        read_payload(m.lock, "X");
        write_payload(m.lock);
        break;
      }
      case NOP: break;
      case S_MANY: {
        // n shared grants held by one thread at the same time (a history, not an interleaving: counters of the lock
        // word next to their field boundaries). The first one is an ordinary request; the others cannot wait for anybody
        // on Pessimistic/OptimisticLock (this thread holds S, so no X is active). On MCSLock a later LockS of the same
        // thread would queue behind a writer that arrived meanwhile (client-made deadlock): single-thread cases only.
        const int l = op.a & 1;
        const uint32_t n = op.arg;
        if (n < 2 || n > 70000 || !can_request(l, 1) || held_mode(l) != 0 || (X->is_mcs && (X->c->threads.size() != 1 || n > 32760))) {
          X->out.skipped++;
          break;
        }
        req_begin(l, 1);
        typename L::SGuard first = lk[l].LockS();
        grant(l, 1, "LockS");
        if (!first) report("BOOL", "LockS returned a guard that converts to false");
        ts->many[l].reserve(n);
        ts->many[l].push_back(std::move(first));
        vsched::nopreempt_enter();
        vsched::heap_lib_scope(true);
        cache_watch(true);
        bool all_own = true;
        for (uint32_t k = 1; k < n; k++) {
          ts->many[l].push_back(lk[l].LockS());
          all_own = all_own && static_cast<bool>(ts->many[l].back());
          X->g[l].ns[me]++;  // (after the grant: the registry stays a subset of what is held)
        }
        vsched::heap_lib_scope(false);
        cache_watch(false);
        vsched::nopreempt_leave();
        if (!all_own) report("BOOL", "LockS returned a guard that converts to false");
        X->out.grants += static_cast<int>(n) - 1;
        X->out.many_shared = std::max<uint32_t>(X->out.many_shared, n);
        check_nodes("grant");
        break;
      }
      case S_MANY_REL: release_many(op.a & 1); break;
      case PARK: vsched::park(); break;
      case HOLD:
        // a long-lived holder: others get many turns (retry / back-off budgets of waiters run out)
        for (uint32_t k = 0; k < op.arg && k < 400; k++) vsched::harness_yield();
        break;
      default:
        if constexpr (IsOpt<L>::value) {
          exec_opt(op);
        } else {
          X->out.skipped++;
        }
        break;
    }
  }

  void
  exec_opt(const Op &op)
  {
    if constexpr (IsOpt<L>::value) {
      switch (op.code) {
        case GETVER: {
          const int l = op.a, j = op.b & 1;
          if (!can_wait_version(l)) {
            X->out.skipped++;
            break;
          }
          auto &g = X->g[l];
          ts->o[j] = lk[l].GetVersion();
          const auto v = ts->o[j].GetVersion();
          if (x_active_elsewhere(l)) report("VERSION-X", std::string("GetVersion on lock ") + std::to_string(l) + " returned while an exclusive holder is active");
          if (g.exact && v != g.gver) report("VERSION-VALUE", std::string("GetVersion on lock ") + std::to_string(l) + " reports " + std::to_string(v) + " but the lock's version is " + std::to_string(g.gver));
          sample(ts->m[kO][j], l, v);
          break;
        }
        case COPYOPT: {
          const int ja = op.a & 1, jb = op.b & 1;
          ts->o[jb] = ts->o[ja];
          ts->m[kO][jb] = ts->m[kO][ja];
          break;
        }
        case OPTREAD: {
          const int kind = op.a, j = op.b & 1;
          if (kind != kO && kind != kC) break;
          auto &m = ts->m[kind][j];
          if (m.owns) {
            read_payload(m.lock, "S (PrepareRead)");
            break;
          }
          if (!m.bound) {
            X->out.skipped++;
            break;
          }
          auto &g = X->g[m.lock];
          const auto x = g.a.read(true);
          const auto y = g.b.read(true);
          m.reads.emplace_back(x, y);
          break;
        }
        case VERIFY: {
          const int j = op.a & 1;
          auto &m = ts->m[kO][j];
          if (!m.bound || !can_wait_version(m.lock)) {
            X->out.skipped++;
            break;
          }
          const auto before = ts->o[j].GetVersion();
          const bool res = ts->o[j].VerifyVersion();
          judge_validation(m, res, before, ts->o[j].GetVersion(), "VerifyVersion", false);
          break;
        }
        case TRY_S:
        case TRY_SIX:
        case TRY_X: {
          const int jo = op.a & 1, j = op.b & 1;
          auto &m = ts->m[kO][jo];
          if (!m.bound || !can_request(m.lock, op.code == TRY_S ? 1 : op.code == TRY_SIX ? 2 : 3) || (op.code == TRY_SIX && !release_ok(ts->m[kI][j], kI, m.lock))) {
            X->out.skipped++;
            break;
          }
          const int l = m.lock;
          const int mode = op.code == TRY_S ? 1 : op.code == TRY_SIX ? 2 : 3;
          const auto before = ts->o[jo].GetVersion();
          req_begin(l, mode);
          bool res = false;
          const char *what = op.code == TRY_S ? "TryLockS" : op.code == TRY_SIX ? "TryLockSIX" : "TryLockX";
          auto finish = [&](auto &&gd, int kind) {
            res = static_cast<bool>(gd);
            if (res) {
              grant(l, mode, what);
            } else {
              req_abort(l);
            }
            judge_validation(m, res, before, ts->o[jo].GetVersion(), what, false);
            if (res) {
              store_new(kind, j, l, std::move(gd));
            } else {
              // a failed TryLock* result owns nothing; assigning it releases what the slot held
              auto &md = ts->m[kind][j];
              with_slot(kind, j, [&](auto &slot) {
                if constexpr (std::is_same_v<std::decay_t<decltype(slot)>, std::decay_t<decltype(gd)>>) {
                  end_grant(md, kind, "move", [&] { slot = std::move(gd); });
                }
              });
              md = SlotModel{};
            }
          };
          if (op.code == TRY_S) {
            finish(ts->o[jo].TryLockS(), kS);
          } else if (op.code == TRY_SIX) {
            finish(ts->o[jo].TryLockSIX(), kI);
          } else {
            finish(ts->o[jo].TryLockX(), kX);
            if (res) {
              auto &mx = ts->m[kX][j];
              const auto xv = ts->x[j].GetVersion();
              if (xv != mx.base_ver) report("VERSION-VALUE", std::string("XGuard::GetVersion after TryLockX reports ") + std::to_string(xv) + " but the version at acquisition was " + std::to_string(mx.base_ver));
            }
          }
          break;
        }
        case PREP: {
          const int l = op.a, j = op.b & 1;
          if (!can_wait_version(l)) {
            X->out.skipped++;
            break;
          }
          auto &g = X->g[l];
          if (x_active_elsewhere(l)) X->out.prep_seen_x = true;
          g.prep_conflict[me] = false;
          g.prep_wrote[me] = false;
          g.prep_writes[me] = 0;
          vsched::watch_set(1, g.lo, g.hi, l, prep_cb);
          auto gd = lk[l].PrepareRead();
          vsched::watch_clear(1);
          auto &m = ts->m[kC][j];
          if (gd) {
            X->out.prep_fallback = true;
            if (!g.prep_wrote[me]) report("PREP-PHANTOM", std::string("PrepareRead on lock ") + std::to_string(l) + " returned an owning guard without ever modifying the lock object: no shared grant backs it");
            if (g.prep_conflict[me] || held_mode(l) != 0) report("PREP-STACK", std::string("PrepareRead on lock ") + std::to_string(l) + " took a shared lock although the lock was not free");
            const bool contprev = pending_cont;
            pending_cont = false;
            g.cur_req[me] = -1;
            grant(l, 1, "PrepareRead");
            pending_cont = contprev;
            end_grant(m, kC, "move", [&] { ts->c[j] = std::move(gd); });
            m = SlotModel{};
            m.owns = true;
            m.lock = l;
          } else {
            const auto v = gd.GetVersion();
            if (g.prep_writes[me] % 2 == 1) {
              report("PREP-LEAK", std::string("PrepareRead on lock ") + std::to_string(l) + " returned a non-owning guard although the call modified the lock object an odd number of times: a shared grant was taken and nobody owns it");
            }
            if (x_active_elsewhere(l)) report("PREP-X", std::string("PrepareRead on lock ") + std::to_string(l) + " returned a version while an exclusive holder is active");
            if (g.exact && v != g.gver) report("PREP-VER", std::string("PrepareRead on lock ") + std::to_string(l) + " carries version " + std::to_string(v) + " but the lock's version is " + std::to_string(g.gver));
            end_grant(m, kC, "move", [&] { ts->c[j] = std::move(gd); });
            m = SlotModel{};
            sample(m, l, v);
          }
          break;
        }
        case CVERIFY: {
          const int j = op.a & 1;
          auto &m = ts->m[kC][j];
          if (m.owns) {
            if (!ts->c[j].VerifyVersion()) report("PREP-VERIFY", "VerifyVersion failed on an owning composite guard");
            break;
          }
          if (!m.bound || !can_wait_version(m.lock)) {
            X->out.skipped++;
            break;
          }
          const auto before = ts->c[j].GetVersion();
          const bool res = ts->c[j].VerifyVersion();
          judge_validation(m, res, before, ts->c[j].GetVersion(), "CompositeGuard::VerifyVersion", true);
          break;
        }
        case SETVER: {
          auto &m = ts->m[kX][op.a & 1];
          if (!m.owns) {
            X->out.skipped++;
            break;
          }
          // c == 1: republish the version that was current when the grant began (the lock word returns to a
          // value it had before: the ABA case for TryLock*/PrepareRead's load-then-CAS)
          const uint32_t v = op.c == 1 ? ts->x[op.a & 1].GetVersion() : op.arg;
          ts->x[op.a & 1].SetVersion(v);
          m.has_set = true;
          m.set_ver = v;
          break;
        }
        case XVER: {
          auto &m = ts->m[kX][op.a & 1];
          if (!m.owns) {
            X->out.skipped++;
            break;
          }
          const auto v = ts->x[op.a & 1].GetVersion();
          if (v != m.base_ver) report("VERSION-VALUE", std::string("XGuard::GetVersion reports ") + std::to_string(v) + " but the version when the grant began was " + std::to_string(m.base_ver));
          break;
        }
        default: break;
      }
    }
  }

  void
  body(int t)
  {
    me = t;
    X->started++;
    TState<L> state;
    ts = &state;
    const auto &ops = X->c->threads[t].ops;
    const auto &pre = X->oppre[t];
    for (size_t k = 0; k < ops.size(); k++) {
      if (k < pre.size() && pre[k] != 0) vsched::preempt_now(static_cast<int>(pre[k]) - 1);
      vsched::harness_point();
      exec(ops[k]);
      check_bools(kOpName[ops[k].code]);
    }
    // end of thread: destroy every guard that still owns a grant, highest lock index first
    for (int l = X->c->nlocks - 1; l >= 0; l--) {
      release_many(l);
      for (int kind : {kC, kX, kI, kS}) {
        for (int j = 1; j >= 0; j--) {
          auto &m = ts->m[kind][j];
          if (!m.owns || m.lock != l) continue;
          with_slot(kind, j, [&](auto &slot) { end_grant(m, kind, "dtor", [&] { destroy_and_renew(slot); }); });
          m = SlotModel{};
        }
      }
    }
    check_bools("thread end");
  }
};

void
body_done_cb(int)
{
}
void
thread_exit_cb(int)
{
  if (X != nullptr && X->phase == 1) X->exited++;
}

template <class L>
void
run_case_t(const Case &c, const vsched::Config &cfg, Outcome &out, int *phase_out)
{
  Ctx ctx;
  X = &ctx;
  ctx.c = &c;
  ctx.is_mcs = std::is_same_v<L, MCSLock>;
  const int nl = c.nlocks;
  L *lk = new L[2];
  for (int l = 0; l < 2; l++) {
    ctx.g[l].lo = &lk[l];
    ctx.g[l].hi = reinterpret_cast<const char *>(&lk[l]) + sizeof(L);
    for (auto &r : ctx.g[l].cur_req) r = -1;
  }
  ctx.oppre.resize(c.threads.size());
  for (auto &p : c.oppre) {
    if (p.thread < 0 || static_cast<size_t>(p.thread) >= c.threads.size()) continue;
    auto &v = ctx.oppre[p.thread];
    if (p.op >= 64) continue;
    if (v.size() <= p.op) v.resize(p.op + 1, 0);
    v[p.op] = static_cast<uint32_t>(p.target) + 1;
  }
  vsched::on_body_done(body_done_cb);
  vsched::on_thread_exit(thread_exit_cb);
  if (ctx.is_mcs) vsched::heap_track(vsched::HeapClass{sizeof(L), 0});

  // phase 0 (OptimisticLock only): publish the initial version through the public API
  if constexpr (IsOpt<L>::value) {
    for (int l = 0; l < nl; l++) {
      if (c.initver[l] == 0) continue;
      auto x = lk[l].LockX();
      x.SetVersion(c.initver[l]);
      ctx.g[l].gver = c.initver[l];
      ctx.g[l].published.push_back(c.initver[l]);
    }
  }
  for (int l = 0; l < nl; l++) ctx.g[l].published.push_back(0);

  // phase 1: the generated program
  ctx.phase = 1;
  *phase_out = 1;
  std::vector<Interp<L>> in(c.threads.size());
  std::vector<vsched::ThreadSpec> specs(c.threads.size());
  for (size_t t = 0; t < c.threads.size(); t++) {
    in[t].lk = lk;
    specs[t].sk = static_cast<vsched::StartKind>(c.threads[t].sk);
    specs[t].dep = c.threads[t].dep;
    specs[t].body = [&in, t] { in[t].body(static_cast<int>(t)); };
  }
  vsched::Config rcfg = cfg;
  for (auto &th : c.threads) {
    for (auto &op : th.ops) {
      if (op.code == S_MANY && op.arg <= 70000) rcfg.maxsteps += 16ULL * op.arg;  // a long but bounded history
    }
  }
  vsched::run(specs, c.sched, rcfg);
  for (int t = 0; t < kMaxT; t++) ctx.out.lsteps[t] = vsched::stats().lsteps[t];

  if (ctx.is_mcs) {
    const auto hs = vsched::heap_stats();
    if (hs.live != 0) {
      vsched::report("LEAK", std::to_string(hs.live) + " queue node(s) still allocated after all guards were released and all threads exited (allocated "
                                 + std::to_string(hs.total) + ", freed " + std::to_string(hs.frees) + ")");
    }
    if (hs.total >= 2) ctx.out.nodes_total = static_cast<int>(hs.total);
    vsched::heap_untrack();
  }

  // phase 2: the lock must be free again: a fresh exclusive request succeeds without waiting
  ctx.phase = 2;
  *phase_out = 2;
  {
    std::vector<vsched::ThreadSpec> fin(1);
    fin[0].body = [&] {
      for (int l = 0; l < nl; l++) {
        if constexpr (IsOpt<L>::value) {
          auto o = lk[l].GetVersion();
          if (ctx.g[l].exact && o.GetVersion() != ctx.g[l].gver) {
            vsched::report("VERSION-VALUE", "final version of lock " + std::to_string(l) + " is " + std::to_string(o.GetVersion()) + " but the ghost version is " + std::to_string(ctx.g[l].gver));
          }
        }
        auto x = lk[l].LockX();
        if (!x) vsched::report("BOOL", "final LockX returned a guard that converts to false");
      }
    };
    vsched::Config fc = cfg;
    fc.K = 48;
    vsched::Schedule none;
    vsched::run(fin, none, fc);
  }
  *phase_out = 3;
  for (int l = 0; l < nl; l++) {
    if (!ctx.g[l].exact) ctx.out.exact = false;
  }
  out = ctx.out;
  delete[] lk;
  X = nullptr;
}

}  // namespace

namespace lockinterp
{
void
run_case(const Case &c, const vsched::Config &cfg, Outcome &out, int *phase_out)
{
  switch (c.cls) {
    case kPess: run_case_t<PessimisticLock>(c, cfg, out, phase_out); break;
    case kOpt: run_case_t<OptimisticLock>(c, cfg, out, phase_out); break;
    default: run_case_t<MCSLock>(c, cfg, out, phase_out); break;
  }
}
}  // namespace lockinterp
