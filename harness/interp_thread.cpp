// Thread DSL interpreter (IDManager / EpochManager) + ghost oracles. Compiled
// WITH the prelude against the repository's current sources, once per
// DBGROUP_MAX_THREAD_NUM variant. One case per process (forked by the worker):
// IDManager keeps process-global state.
#include "dbgroup/thread/epoch_manager.hpp"
#include "dbgroup/thread/id_manager.hpp"

#include "interp_thread.hpp"

using namespace threadcase;  // NOLINT
using dbgroup::thread::EpochGuard;
using dbgroup::thread::EpochManager;
using dbgroup::thread::IDManager;
using vsched::report;

namespace
{
constexpr int kMaxT = vsched::kMaxT;
constexpr size_t kCap = dbgroup::thread::kMaxThreadNum;
constexpr size_t kNone = static_cast<size_t>(-1);
constexpr int kMaxId = 160;  // ghost tables indexed by thread ID (capacities up to this value)

struct HB {
  int thread;
  std::weak_ptr<size_t> w;
};

// observation of a heartbeat by the oracles: never a scheduling point
template <class W>
bool
hb_expired(const W &w)
{
  if constexpr (requires { w.raw_expired(); }) {
    return w.raw_expired();
  } else {
    return w.expired();
  }
}

struct Ghost {
  size_t id[kMaxT];
  bool body_running[kMaxT] = {};
  bool in_cleanup[kMaxT] = {};
  bool exited[kMaxT] = {};
  bool in_first_getid[kMaxT] = {};
  bool in_pure_getid[kMaxT] = {};     // inside a direct IDManager::GetThreadID call (nothing but the claim runs)
  uint64_t getid_steps[kMaxT] = {};   // steps spent inside the first GetThreadID since the ghost ID table last changed
  uint64_t table_version = 0;
  int in_forward = -1;            // thread inside ForwardGlobalEpoch (-1 none)
  uint64_t fwd_steps = 0;
  bool fwd_blocked_reported = false;
  uint64_t seen_version[kMaxT] = {};
  bool starve_reported = false;
  int last_owner[kMaxId];
  std::vector<HB> hb_by_id[kMaxId];
  std::vector<std::weak_ptr<size_t>> own_hb[kMaxT];
  // epoch guards
  bool pin_possible[kMaxT] = {};
  bool alive[kMaxT] = {};
  uint64_t serial[kMaxT] = {};
  size_t epoch[kMaxT] = {};
  bool in_getprot[kMaxT] = {};
  uint64_t pin_events = 0;
  size_t expected_epoch = EpochManager::kInitialEpoch;
  size_t max_min_seen = 0;
  size_t max_cur_seen = 0;
  bool prev_fwd_pinned = false;
  uint64_t fwd_done = 0;
};

struct Ctx {
  const Case *c = nullptr;
  Ghost g;
  Outcome out;
  EpochManager *mgr = nullptr;
  int phase = 0;
  int live_threads = 0;
  std::atomic<int> arrived{0};  // renamed by the prelude: a scheduled atomic
};
Ctx *X = nullptr;

std::string
s(size_t v)
{
  return std::to_string(v);
}

struct Worker {
  int me = -1;
  EpochGuard guard{};
  EpochGuard parked{};  // a named, always-empty guard that outlives the operations (GUARD_END 2 assigns from it)
  bool has_guard = false;
  EpochGuard guard2{};  // overlapping second guard of the same thread (the library gives no protection guarantee while two
                        // guards of one thread overlap - no pin is claimed for them - but both must stop pinning when destroyed)
  bool has_guard2 = false;
  const std::vector<size_t> *list = nullptr;
  std::vector<size_t> snap;
  uint64_t fwd_at_getprot = 0;

  int
  owned_ids() const
  {
    int n = 0;
    for (int t = 0; t < kMaxT; t++) {
      if (X->g.id[t] != kNone && !X->g.exited[t]) n++;
    }
    return n;
  }

  // bookkeeping + oracles for a GetThreadID result
  void
  judge_id(size_t id, bool first_call_window)
  {
    auto &g = X->g;
    if (id >= kCap) {
      report("IDRANGE", "GetThreadID returned " + s(id) + " with capacity " + s(kCap));
      return;
    }
    if (g.id[me] != kNone && g.id[me] != id) report("IDSTABLE", "GetThreadID returned " + s(id) + " but this thread was given " + s(g.id[me]) + " before");
    for (int t = 0; t < kMaxT; t++) {
      if (t != me && g.id[t] == id && g.body_running[t]) {
        report("IDUNIQUE", "T" + s(me) + " and T" + s(t) + " are both running user code with thread ID " + s(id));
      }
    }
    if (g.id[me] == kNone) {
      // first assignment: every heartbeat handed out to earlier owners must be expired by now
      for (auto &h : g.hb_by_id[id]) {
        if (h.thread != me && !hb_expired(h.w)) {
          report("HB-REUSE", "ID " + s(id) + " was given to T" + s(me) + " while the heartbeat handed out to its earlier owner T" + s(h.thread) + " is not expired");
        }
      }
      const int prev = g.last_owner[id];
      if (prev >= 0 && prev != me) {
        if (g.in_cleanup[prev] && !g.exited[prev]) X->out.reuse_in_cleanup = true;
        if (g.exited[prev]) X->out.reuse_after_exit = true;
      }
      g.last_owner[id] = me;
      g.id[me] = id;
      g.table_version++;
      X->out.ids_issued++;
      if (static_cast<int>(id) > X->out.max_id) X->out.max_id = static_cast<int>(id);
      const size_t start = X->c->threads[me].probe % kCap;
      if (id <= start) X->out.probe_wrapped = true;
    }
    (void)first_call_window;
  }

  size_t
  get_id()
  {
    auto &g = X->g;
    const bool first = g.id[me] == kNone;
    if (first) {
      g.in_first_getid[me] = true;
      if (owned_ids() >= static_cast<int>(kCap)) X->out.waited_full = true;
      const size_t mystart = X->c->threads[me].probe % kCap;
      for (int t = 0; t < kMaxT; t++) {
        if (t == me) continue;
        if (g.in_first_getid[t] && X->c->threads[t].probe % kCap == mystart) X->out.probe_collision = true;
        if (g.in_cleanup[t] && !g.exited[t]) X->out.claim_overlaps_exit = true;
      }
    }
    g.in_pure_getid[me] = first;
    const size_t id = IDManager::GetThreadID();
    g.in_pure_getid[me] = false;
    g.in_first_getid[me] = false;
    judge_id(id, first);
    return id;
  }

  void
  check_list_shape(const std::vector<size_t> &l, size_t e, const char *where)
  {
    bool ok = !l.empty() && l.front() == e;
    if (!ok) {
      report("LIST-OWNER", std::string(where) + ": the list handed out has front " + (l.empty() ? std::string("<empty>") : s(l.front())) + " but the guard reports epoch " + s(e));
      return;
    }
    for (size_t k = 1; k < l.size(); k++) {
      if (l[k - 1] <= l[k]) {
        report("LIST-ORDER", std::string(where) + ": the list is not strictly descending at index " + s(k));
        return;
      }
    }
    if (e > EpochManager::kInitialEpoch) {
      bool has = false;
      for (auto v : l) has = has || v == e - 1;
      if (!has) report("LIST-PREV", std::string(where) + ": the list of epoch " + s(e) + " does not contain the preceding epoch");
    }
  }

  void
  end_guard(int how)
  {
    auto &g = X->g;
    if (!has_guard) return;
    g.alive[me] = false;
    if (list != nullptr) {
      if (*list != snap) report("LIST-STABLE", "the list handed out with the guard (epoch " + s(g.epoch[me]) + ") changed while the guard was alive");
      list = nullptr;
    }
    if (how == 0) {
      guard = EpochGuard{};
    } else if (how == 2) {
      guard = std::move(parked);  // move assignment from a named empty guard: must release the pin right now
    } else {
      guard.~EpochGuard();
      new (&guard) EpochGuard{};
    }
    has_guard = false;
    if (!has_guard2) g.pin_possible[me] = false;
  }

  void
  end_guard2()
  {
    if (!has_guard2) return;
    guard2 = EpochGuard{};
    has_guard2 = false;
    if (!has_guard) X->g.pin_possible[me] = false;
  }

  void
  observe_forward_by_coordinator(const bool alive_at_start[kMaxT], const uint64_t serial_at_start[kMaxT], bool quiescent_start, uint64_t ev0)
  {
    auto &g = X->g;
    auto *mgr = X->mgr;
    vsched::nopreempt_enter();
    const size_t cur = mgr->GetCurrentEpoch();
    g.expected_epoch++;
    g.fwd_done++;
    X->out.forwards++;
    if (cur != g.expected_epoch) report("EPOCH-STEP", "GetCurrentEpoch is " + s(cur) + " after a ForwardGlobalEpoch call that started at " + s(g.expected_epoch - 1));
    if ((g.expected_epoch & 255U) == 0) X->out.boundary_crossed = true;
    if (cur > g.max_cur_seen) g.max_cur_seen = cur;
    const size_t minv = mgr->GetMinEpoch();
    if (minv > g.max_min_seen) g.max_min_seen = minv;
    if (minv > cur) report("MIN-GT-CUR", "GetMinEpoch " + s(minv) + " exceeds GetCurrentEpoch " + s(cur));
    for (int t = 0; t < kMaxT; t++) {
      if (g.in_getprot[t]) X->out.fwd_inside_getprotected = true;
    }
    bool any_pinned = false;
    for (int t = 0; t < kMaxT; t++) {
      if (t == me || !alive_at_start[t]) continue;
      any_pinned = true;
      if (!g.alive[t] || g.serial[t] != serial_at_start[t]) continue;
      if (minv > g.epoch[t]) {
        report("PIN-MIN", "T" + s(t) + " holds a guard on epoch " + s(g.epoch[t]) + " created before the forward to " + s(cur) + " started, but GetMinEpoch is " + s(minv));
      }
    }
    const bool quiescent = quiescent_start && g.pin_events == ev0;
    if (g.id[me] != kNone && !has_guard) {
      // the coordinator owns an ID: fetch the list published for the new epoch through the public API
      auto [og, l] = mgr->GetProtectedEpochs();
      const size_t oe = og.GetProtectedEpoch();
      if (oe == cur) {
        check_list_shape(l, oe, "coordinator");
        for (int t = 0; t < kMaxT; t++) {
          if (t == me || !alive_at_start[t] || !g.alive[t] || g.serial[t] != serial_at_start[t]) continue;
          bool has = false;
          for (auto v : l) has = has || v == g.epoch[t];
          if (!has) {
            report("PIN-LIST", "T" + s(t) + " holds a guard on epoch " + s(g.epoch[t]) + " created before the forward to " + s(cur) + " started, but the list published for " + s(cur) + " does not contain it");
          }
        }
        if (quiescent) {
          if (l.size() != 2 || l[0] != cur || l[1] != cur - 1) {
            std::string ls;
            for (auto v : l) ls += s(v) + " ";
            report("QUIESCENT-LIST", "no guard existed during the forward to " + s(cur) + " but the published list is { " + ls + "}");
          }
        }
      } else {
        report("LIST-OWNER", "coordinator: guard epoch " + s(oe) + " differs from the current epoch " + s(cur) + " although nobody else forwards");
      }
    }
    if (quiescent) {
      if (minv != cur - 1) report("QUIESCENT-MIN", "no guard existed during the forward to " + s(cur) + " but GetMinEpoch is " + s(minv));
      if (g.prev_fwd_pinned) X->out.quiescent_after_pinned = true;
    }
    g.prev_fwd_pinned = any_pinned || !quiescent;
    if (any_pinned) X->out.fwd_with_foreign_guard = true;
    vsched::nopreempt_leave();
  }

  void
  exec(const Op &op)
  {
    auto &g = X->g;
    auto *mgr = X->mgr;
    X->out.executed++;
    switch (op.code) {
      case GETID: get_id(); break;
      case GETHB: {
        get_id();
        auto w = IDManager::GetHeartBeat();
        if (hb_expired(w)) {
          report("HB-LIVE", "GetHeartBeat returned an expired heartbeat to a running thread");
        } else if (g.id[me] != kNone && g.id[me] < static_cast<size_t>(kMaxId)) {
          g.hb_by_id[g.id[me]].push_back(HB{me, w});
          g.own_hb[me].push_back(w);
        }
        break;
      }
      case CHECKHB:
        for (auto &w : g.own_hb[me]) {
          if (hb_expired(w)) report("HB-LIVE", "a heartbeat of T" + s(me) + " is expired while the thread is still running");
        }
        break;
      case SPIN:
        for (uint32_t k = 0; k < op.a && k < 64; k++) vsched::harness_point();
        break;
      case YIELD:
        // a = 0/1: one yield; larger: a long-lived thread in user code (waiters get that many turns)
        for (uint32_t k = 0; k < (op.a == 0 ? 1U : op.a) && k < 400; k++) vsched::harness_yield();
        break;
      case GUARD_NEW: {
        if (mgr == nullptr || has_guard) {
          X->out.skipped++;
          break;
        }
        const bool first = g.id[me] == kNone;
        if (first) {
          g.in_first_getid[me] = true;
          if (owned_ids() >= static_cast<int>(kCap)) X->out.waited_full = true;
        }
        g.pin_possible[me] = true;
        g.pin_events++;
        const std::vector<size_t> *lp = nullptr;
        if (op.a == 0) {
          guard = mgr->CreateEpochGuard();
        } else {
          g.in_getprot[me] = true;
          fwd_at_getprot = g.fwd_done;
          auto [gd, l] = mgr->GetProtectedEpochs();
          g.in_getprot[me] = false;
          guard = std::move(gd);
          lp = &l;
        }
        // ghost ID table first: no scheduling point lies between the call's return and this update
        judge_id(IDManager::GetThreadID(), first);
        g.in_first_getid[me] = false;
        has_guard = true;
        const size_t e = guard.GetProtectedEpoch();  // (a scheduling point; the guard is not yet "completely created" for the ghost)
        g.epoch[me] = e;
        g.serial[me]++;
        g.alive[me] = true;
        X->out.guards++;
        if (lp != nullptr) {
          list = lp;
          check_list_shape(*lp, e, "GetProtectedEpochs");
          snap = *lp;
        }
        break;
      }
      case GUARD_REFRESH: {
        // the refresh idiom: assign a newly created guard over the live one (the thread still has one guard afterwards)
        if (mgr == nullptr || !has_guard || has_guard2) {
          X->out.skipped++;
          break;
        }
        g.alive[me] = false;  // the old guard instance ends; until the new one is registered nothing is claimed
        if (list != nullptr) {
          if (*list != snap) report("LIST-STABLE", "the list handed out with the guard (epoch " + s(g.epoch[me]) + ") changed while the guard was alive");
          list = nullptr;
        }
        g.pin_events++;
        const std::vector<size_t> *lp = nullptr;
        if (op.a == 0) {
          guard = mgr->CreateEpochGuard();
        } else {
          g.in_getprot[me] = true;
          auto [gd, l] = mgr->GetProtectedEpochs();
          g.in_getprot[me] = false;
          guard = std::move(gd);
          lp = &l;
        }
        const size_t e = guard.GetProtectedEpoch();
        if (e == std::numeric_limits<size_t>::max()) {
          report("GUARD-UNPINNED", "a guard refreshed by move assignment from a newly created guard is alive but reports no protected epoch");
          // the thread believes it is protected: keep the ghost claim at the epoch that was current, so the coordinator judges it
        }
        g.epoch[me] = e == std::numeric_limits<size_t>::max() ? mgr->GetCurrentEpoch() : e;
        g.serial[me]++;
        g.alive[me] = true;
        X->out.guards++;
        if (lp != nullptr && e != std::numeric_limits<size_t>::max()) {
          list = lp;
          check_list_shape(*lp, e, "GetProtectedEpochs (refresh)");
          snap = *lp;
        }
        break;
      }
      case GUARD_MOVE: {
        if (!has_guard) {
          X->out.skipped++;
          break;
        }
        const size_t e0 = guard.GetProtectedEpoch();
        if (op.a == 0) {
          EpochGuard tmp{std::move(guard)};
          guard = std::move(tmp);
        } else {
          EpochGuard tmp{};
          tmp = std::move(guard);
          guard = std::move(tmp);
        }
        if (guard.GetProtectedEpoch() != e0) report("GUARD-MOVE", "moving a guard changed the epoch it reports from " + s(e0) + " to " + s(guard.GetProtectedEpoch()));
        break;
      }
      case GUARD_END: end_guard(static_cast<int>(op.a % 3U)); break;
      case GUARD2_NEW: {
        if (mgr == nullptr || !has_guard || has_guard2) {
          X->out.skipped++;
          break;
        }
        // from here on this thread's guards overlap: nothing is claimed about what they pin (alive stays false until a
        // single guard is created or refreshed again); the list handed out with the first guard is no longer watched
        g.alive[me] = false;
        if (list != nullptr) {
          if (*list != snap) report("LIST-STABLE", "the list handed out with the guard (epoch " + s(g.epoch[me]) + ") changed while the guard was alive");
          list = nullptr;
        }
        g.pin_events++;
        guard2 = mgr->CreateEpochGuard();
        has_guard2 = true;
        X->out.overlapping_guards = true;
        break;
      }
      case GUARD2_END: end_guard2(); break;
      case CHECK_LIST:
        if (has_guard && list != nullptr) {
          if (*list != snap) report("LIST-STABLE", "the list handed out with the guard (epoch " + s(g.epoch[me]) + ") changed while the guard was alive");
          if (guard.GetProtectedEpoch() != g.epoch[me]) report("GUARD-EPOCH", "a live guard changed the epoch it reports");
        } else {
          X->out.skipped++;
        }
        break;
      case READ_CUR: {
        if (mgr == nullptr) break;
        const size_t c = mgr->GetCurrentEpoch();
        if (c < g.max_cur_seen) report("CUR-DECREASED", "GetCurrentEpoch returned " + s(c) + " after an earlier call returned " + s(g.max_cur_seen));
        if (c < g.max_min_seen) report("MIN-GT-CUR", "GetCurrentEpoch returned " + s(c) + " after an earlier GetMinEpoch returned " + s(g.max_min_seen));
        if (c > g.max_cur_seen) g.max_cur_seen = c;
        break;
      }
      case READ_MIN: {
        if (mgr == nullptr) break;
        const size_t m = mgr->GetMinEpoch();
        if (m > g.max_min_seen) g.max_min_seen = m;
        break;
      }
      case FWD:
      case FWD_BULK: {
        if (mgr == nullptr || me != 0) {
          X->out.skipped++;
          break;
        }
        if (op.code == FWD_BULK) {
          vsched::nopreempt_enter();
          const uint32_t n = op.a > 1200 ? 1200 : op.a;
          const long frees0 = vsched::heap_stats().frees;
          vsched::heap_lib_scope(true);
          for (uint32_t k = 0; k < n; k++) {
            mgr->ForwardGlobalEpoch();
            g.expected_epoch++;
            g.fwd_done++;
            if ((g.expected_epoch & 255U) == 0) X->out.boundary_crossed = true;
          }
          vsched::heap_lib_scope(false);
          if (vsched::heap_stats().frees > frees0) {
            for (int t = 0; t < kMaxT; t++) {
              if (g.alive[t] || g.in_getprot[t]) X->out.node_retired_under_guard = true;
            }
          }
          X->out.forwards += static_cast<int>(n);
          const size_t cur = mgr->GetCurrentEpoch();
          if (cur != g.expected_epoch) report("EPOCH-STEP", "GetCurrentEpoch is " + s(cur) + " after " + s(n) + " forwards; expected " + s(g.expected_epoch));
          if (cur > g.max_cur_seen) g.max_cur_seen = cur;
          g.prev_fwd_pinned = true;
          for (int t = 0; t < kMaxT; t++) {
            if (g.in_getprot[t]) X->out.fwd_inside_getprotected = true;
          }
          vsched::nopreempt_leave();
          break;
        }
        const uint32_t n = op.a > 64 ? 64 : op.a;
        for (uint32_t k = 0; k < n; k++) {
          bool alive_at_start[kMaxT];
          uint64_t serial_at_start[kMaxT];
          bool quiescent_start = true;
          for (int t = 0; t < kMaxT; t++) {
            alive_at_start[t] = g.alive[t];
            serial_at_start[t] = g.serial[t];
            if (g.pin_possible[t]) quiescent_start = false;
          }
          const uint64_t ev0 = g.pin_events;
          const long frees0 = vsched::heap_stats().frees;
          vsched::heap_lib_scope(true);
          g.in_forward = me;
          g.fwd_steps = 0;
          mgr->ForwardGlobalEpoch();
          g.in_forward = -1;
          vsched::heap_lib_scope(false);
          if (vsched::heap_stats().frees > frees0) {
            for (int t = 0; t < kMaxT; t++) {
              if (g.alive[t] || g.in_getprot[t]) X->out.node_retired_under_guard = true;
            }
          }
          observe_forward_by_coordinator(alive_at_start, serial_at_start, quiescent_start, ev0);
        }
        break;
      }
      default: break;
    }
  }

  void
  body(int t)
  {
    me = t;
    X->g.body_running[t] = true;
    X->live_threads++;
    const auto &th = X->c->threads[t];
    if (th.sk != vsched::kBegin) X->out.thread_churn = true;
    for (const auto &op : th.ops) {
      vsched::harness_point();
      exec(op);
    }
    end_guard2();
    end_guard(1);
  }
};

// C14: while fewer than `capacity` threads hold IDs, a claiming thread must find a free one: it may not keep
// probing (several full sweeps long) while the ghost ID table does not change and shows a free ID
void
step_cb(int t)
{
  if (X == nullptr || X->phase != 1 || t < 0 || t >= kMaxT) return;
  auto &g = X->g;
  // C16: a forward never waits for other threads; it needs one pass over the thread slots
  if (g.in_forward == t && ++g.fwd_steps > 3 * kCap + 16 && !g.fwd_blocked_reported) {  // a forward needs about capacity + 4 steps
    g.fwd_blocked_reported = true;
    report("FWD-BLOCKED", "ForwardGlobalEpoch has executed " + s(static_cast<size_t>(g.fwd_steps)) + " atomic steps without returning (capacity " + s(kCap) + "): it is waiting for something");
  }
  if (!g.in_pure_getid[t]) return;
  if (g.seen_version[t] != g.table_version) {
    g.seen_version[t] = g.table_version;
    g.getid_steps[t] = 0;
    return;
  }
  int owned = 0;
  bool other_claiming = false;
  for (int u = 0; u < kMaxT; u++) {
    if (g.id[u] != kNone && !g.exited[u]) owned++;
    if (u != t && g.in_first_getid[u]) other_claiming = true;
  }
  if (owned >= static_cast<int>(kCap) || other_claiming) {
    g.getid_steps[t] = 0;
    return;
  }
  if (++g.getid_steps[t] > 4 * kCap + 8 && !g.starve_reported) {  // two full sweeps at two atomic steps per slot: any probing order finds a free ID in an unchanged table sooner
    g.starve_reported = true;
    report("ID-STARVE", "T" + s(static_cast<size_t>(t)) + " keeps probing inside GetThreadID although only " + s(static_cast<size_t>(owned)) + " of " + s(kCap)
                            + " IDs are held and nobody else is claiming or releasing");
  }
}

void
body_done_cb(int t)
{
  if (X == nullptr || X->phase != 1) return;
  X->g.body_running[t] = false;
  X->g.in_cleanup[t] = true;
}

void
thread_exit_cb(int t)
{
  if (X == nullptr || X->phase != 1) return;
  auto &g = X->g;
  g.exited[t] = true;
  g.table_version++;
  X->live_threads--;
  if (X->live_threads > 0) X->out.thread_churn = true;
  for (auto &w : g.own_hb[t]) {
    if (!hb_expired(w)) report("HB-EXIT", "a heartbeat of T" + s(t) + " is still unexpired after the thread has exited");
  }
}

}  // namespace

// source hook (only compiled into the library with -DCPP_UTILITY_VERIF): accesses to the shared non-atomic
// list-node fields inside GetProtectedEpochs
extern "C" void
cpp_utility_verif_point(const char *site)
{
  if (X == nullptr || !vsched::active()) return;
  // sites outside the node walk (slot binding, coordinator scan) are ordinary scheduling points;
  // the node-walk sites are inert unless the case asks for them (known finding KF-C17-WALK)
  const bool walk = std::strncmp(site, "epoch.walk", 10) == 0 || std::strncmp(site, "epoch.lookup", 12) == 0;
  if (!walk || X->c->walk_points) {
    vsched::harness_point();
  } else {
    X->out.excluded_known++;
  }
}

namespace threadinterp
{
int
capacity()
{
  return static_cast<int>(kCap);
}

void
run_case(const Case &c, const vsched::Config &cfg, Outcome &out, int *phase_out)
{
  Ctx ctx;
  X = &ctx;
  ctx.c = &c;
  for (auto &v : ctx.g.id) v = kNone;
  for (auto &v : ctx.g.last_owner) v = -1;
  vsched::on_body_done(body_done_cb);
  vsched::on_thread_exit(thread_exit_cb);
  vsched::on_step(step_cb);
  vsched::heap_track(vsched::HeapClass{0, 64});
  if (c.use_epoch) {
    vsched::heap_lib_scope(true);
    ctx.mgr = new EpochManager{};
    vsched::heap_lib_scope(false);
  }

  ctx.phase = 1;
  *phase_out = 1;
  std::vector<Worker> w(c.threads.size());
  std::vector<vsched::ThreadSpec> specs(c.threads.size());
  for (size_t t = 0; t < c.threads.size(); t++) {
    specs[t].sk = static_cast<vsched::StartKind>(c.threads[t].sk);
    specs[t].dep = c.threads[t].dep;
    specs[t].probe = c.threads[t].probe;
    specs[t].body = [&w, t] { w[t].body(static_cast<int>(t)); };
  }
  vsched::run(specs, c.sched, cfg);
  for (int t = 0; t < kMaxT; t++) ctx.out.lsteps[t] = vsched::stats().lsteps[t];

  // phase 2: the ID table must be empty again: `capacity` fresh threads all obtain an ID
  ctx.phase = 2;
  *phase_out = 2;
  {
    std::vector<vsched::ThreadSpec> fin(kCap > static_cast<size_t>(kMaxT) ? kMaxT : kCap);
    std::vector<size_t> got(fin.size(), kNone);
    const int need = static_cast<int>(fin.size());
    for (size_t t = 0; t < fin.size(); t++) {
      fin[t].probe = t;
      fin[t].body = [&ctx, &got, t, need] {
        got[t] = IDManager::GetThreadID();
        ctx.arrived.fetch_add(1);
        while (ctx.arrived.load() < need) vsched::yield_hint();
      };
    }
    vsched::Config fc = cfg;
    fc.K = 64 + 16 * kCap;
    vsched::Schedule none;
    vsched::run(fin, none, fc);
    for (size_t a = 0; a < got.size(); a++) {
      if (got[a] >= kCap) report("IDRANGE", "finaliser got ID " + s(got[a]));
      for (size_t b = a + 1; b < got.size(); b++) {
        if (got[a] == got[b]) report("IDUNIQUE", "two finaliser threads hold ID " + s(got[a]) + " at the same time");
      }
    }
  }
  *phase_out = 3;
  out = ctx.out;
  w.clear();  // every guard object of the workers dies before the manager does
  delete ctx.mgr;
  X = nullptr;
}
}  // namespace threadinterp
