#pragma once
#include "lockcase.hpp"
namespace lockinterp
{
// Executes one case against the repository's lock classes under vsched.
// Oracle hits are appended to vsched::reports(); fatal verdicts (STUCK,
// STEPBOUND) go through vsched's fatal handler. *phase is kept up to date
// (1 = generated program, 2 = final "lock is free" probe, 3 = done).
void run_case(const lockcase::Case &c, const vsched::Config &cfg, lockcase::Outcome &out, int *phase);
}  // namespace lockinterp
