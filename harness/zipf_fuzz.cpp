// libFuzzer target for the Zipf family (second engine, thorough tier): the byte
// string is decoded into structured arguments (class, type, n, alpha, min,
// engine words) and judged by the same oracles as the rapidcheck worker (C06 and
// C18 on every input, C19's sequential half on a sub-sample). The oracle lives
// inside the target; on a hit the shrunk-by-libFuzzer input is written as a
// replay file before trapping. Counters are flushed at exit and before a trap.
// Build: clang++ -fsanitize=fuzzer,address,undefined.
#include <fuzzer/FuzzedDataProvider.h>

#include "zipf_checks.hpp"

namespace
{
wk::Counters C;
std::string g_out;
std::string g_prop = "C06";

void
flush()
{
  if (g_out.empty()) return;
  C.done = true;
  wk::write_file(g_out + "/result.json", C.to_json());
}

double
decode_alpha(FuzzedDataProvider &f)
{
  switch (f.ConsumeIntegralInRange<int>(0, 8)) {
    case 0: return 0.0;
    case 1: return 1.0;
    case 2: return f.ConsumeIntegralInRange<int>(0, 300) / 100.0;
    case 3: return 1.0 + std::ldexp(1.0, -f.ConsumeIntegralInRange<int>(1, 52));
    case 4: return 1.0 - std::ldexp(1.0, -f.ConsumeIntegralInRange<int>(1, 53));
    case 5: return f.ConsumeIntegralInRange<int>(0, 3000) / 1000.0;
    case 6: return static_cast<double>(f.ConsumeIntegralInRange<int>(5, 1000));
    case 7: return f.ConsumeFloatingPointInRange<double>(0.0, 3.0);
    default: return f.ConsumeFloatingPointInRange<double>(0.0, 50.0);
  }
}

template <class T>
void
decode_min(FuzzedDataProvider &f, ZCase &c)
{
  const long double hi = Lim<T>::hi, lo = Lim<T>::lo;
  const long double room = hi - static_cast<long double>(c.n) - 1;
  long double m = 0;
  switch (f.ConsumeIntegralInRange<int>(0, 4)) {
    case 0: m = 0; break;
    case 1: m = std::is_signed_v<T> ? -static_cast<long double>(f.ConsumeIntegralInRange<uint32_t>(0, 100000)) : static_cast<long double>(f.ConsumeIntegralInRange<uint32_t>(0, 100000)); break;
    case 2: m = room - static_cast<long double>(f.ConsumeIntegralInRange<uint32_t>(0, 1000)); break;
    case 3: m = lo + static_cast<long double>(f.ConsumeIntegralInRange<uint32_t>(0, 1000)); break;
    default: m = 1; break;
  }
  if (m > room) m = room;
  if (m < lo) m = lo;
  if (std::is_signed_v<T>) {
    c.min_s = static_cast<int64_t>(m);
  } else {
    c.min_u = static_cast<uint64_t>(m);
  }
}
}  // namespace

extern "C" int
LLVMFuzzerInitialize(int *, char ***)
{
  if (const char *o = getenv("VERIF_FUZZ_OUT")) g_out = o;
  if (const char *p = getenv("VERIF_FUZZ_PROP")) g_prop = p;
  atexit(flush);
  return 0;
}

extern "C" int
LLVMFuzzerTestOneInput(const uint8_t *data, size_t size)
{
  if (size < 4) return 0;
  FuzzedDataProvider f(data, size);
  ZCase c;
  c.prop = g_prop;
  c.cls = f.ConsumeIntegralInRange<int>(0, 1);
  c.type = f.ConsumeIntegralInRange<int>(0, 3);
  const uint64_t cap = g_prop == "C18" ? (c.cls ? 20000 : 5000) : (c.cls ? 3000000 : 5000);
  switch (f.ConsumeIntegralInRange<int>(0, 4)) {
    case 0: c.n = f.ConsumeIntegralInRange<uint64_t>(1, 110); break;
    case 1: c.n = f.ConsumeIntegralInRange<uint64_t>(90, 320); break;
    case 2: c.n = 100 + 100 * f.ConsumeIntegralInRange<uint64_t>(1, 40) + f.ConsumeIntegralInRange<uint64_t>(0, 2) % 3 * (f.ConsumeBool() ? 1 : 99) % 100; break;
    case 3: c.n = f.ConsumeIntegralInRange<uint64_t>(1000, 3000); break;
    default: c.n = f.ConsumeIntegralInRange<uint64_t>(1, cap); break;
  }
  if (c.n > cap) c.n = cap;
  c.alpha = decode_alpha(f);
  switch (c.type) {
    case 0: decode_min<uint32_t>(f, c); break;
    case 1: decode_min<uint64_t>(f, c); break;
    case 2: decode_min<int32_t>(f, c); break;
    default: decode_min<int64_t>(f, c); break;
  }
  if (g_prop == "C06") {
    const int np = f.ConsumeIntegralInRange<int>(1, 6);
    for (int i = 0; i < np; i++) {
      Probe p;
      p.ukind = f.ConsumeIntegralInRange<int>(0, 5);
      switch (f.ConsumeIntegralInRange<int>(0, 4)) {
        case 0: p.k = 0; break;
        case 1: p.k = c.n - 1; break;
        case 2: p.k = f.ConsumeIntegralInRange<uint64_t>(95, 104); break;
        default: p.k = f.ConsumeIntegralInRange<uint64_t>(0, c.n - 1); break;
      }
      p.word = f.ConsumeIntegral<uint64_t>();
      c.probes.push_back(p);
    }
  } else if (g_prop == "C19") {
    c.threads = 0;
    c.engseed = f.ConsumeIntegral<uint64_t>();
    c.seqlen = f.ConsumeIntegralInRange<int>(1, 48);
  }
  Verdict v;
  run_case(c, v);
  C.evaluations++;
  for (auto &l : v.labels) C.labels[l]++;
  if (v.nontrivial) {
    C.nontrivial++;
    const std::string t = to_text(c);
    C.nontrivial_hashes.insert(wk::fnv(t));
    if (C.samples.size() < 3) C.samples.push_back(t);
  }
  if (!v.reports.empty()) {
    c.resolved = true;
    for (auto &r : v.reports) C.report_kinds[r.first]++;
    const std::string fn = g_out + "/viol-" + std::to_string(C.evaluations) + "-" + v.reports[0].first + ".case";
    if (!g_out.empty()) {
      wk::write_file(fn, to_text(c));
      C.viols.push_back({v.reports[0].first, v.reports[0].second, fn, C.evaluations});
    }
    fprintf(stderr, "ORACLE %s: %s\n", v.reports[0].first.c_str(), v.reports[0].second.c_str());
    flush();
    __builtin_trap();
  }
  return 0;
}
