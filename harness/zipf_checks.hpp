// Zipf family: case format, scripted engine and the oracles of C06 / C18 / C19.
// Shared by the rapidcheck worker (zipf_main.cpp) and the libFuzzer target (zipf_fuzz.cpp).
#pragma once
#include <atomic>
#include <cfloat>
#include <cinttypes>
#include <cmath>
#include <limits>
#include <random>
#include <thread>

#include "dbgroup/random/zipf.hpp"
#include "worker_common.hpp"

using dbgroup::random::ApproxZipfDistribution;
using dbgroup::random::ZipfDistribution;

namespace
{
// scripted 64-bit engine: hands out the listed words, then repeats the last one
struct Eng {
  using result_type = uint64_t;
  const std::vector<uint64_t> *w;
  size_t pos = 0;
  static constexpr uint64_t min() { return 0; }
  static constexpr uint64_t max() { return ~0ULL; }
  uint64_t
  operator()()
  {
    const uint64_t v = (*w)[pos < w->size() ? pos : w->size() - 1];
    pos++;
    return v;
  }
};

enum UKind : int { kAtBreak = 0, kBelowBreak = 1, kAboveBreak = 2, kZero = 3, kMaxBelowOne = 4, kArbitrary = 5 };

struct Probe {
  int ukind = kArbitrary;
  uint64_t k = 0;      // target bin for the breakpoint kinds
  uint64_t word = 0;   // engine word for kArbitrary (and the resolved word in replay files)
};

struct ZCase {
  std::string prop = "C06";
  int cls = 0;          // 0 exact, 1 approx
  int type = 0;         // 0 u32, 1 u64, 2 i32, 3 i64
  int64_t min_s = 0;    // min for signed types
  uint64_t min_u = 0;   // min for unsigned types
  uint64_t n = 1;       // bins
  double alpha = 0.0;
  std::vector<Probe> probes;
  bool resolved = false;  // probes carry explicit words (replay)
  int threads = 0;        // C19: concurrent samplers
  uint64_t engseed = 1;   // C19: mt19937_64 seed
  int seqlen = 16;        // C19
  int rounds = 0;         // C19: rounds of the shared-generator phase (0 = default 2)
};

std::string
to_text(const ZCase &c)
{
  std::ostringstream o;
  char buf[64];
  o << "family zipf\nprop " << c.prop << "\nclass " << (c.cls ? "approx" : "exact") << "\ntype " << (c.type == 0 ? "u32" : c.type == 1 ? "u64" : c.type == 2 ? "i32" : "i64")
    << "\nmin_s " << c.min_s << "\nmin_u " << c.min_u << "\nn " << c.n << "\n";
  snprintf(buf, sizeof buf, "%a", c.alpha);
  o << "alpha " << buf << "   # " << c.alpha << "\n";
  o << "threads " << c.threads << "\nengseed " << c.engseed << "\nseqlen " << c.seqlen << "\nrounds " << c.rounds << "\n";
  for (auto &p : c.probes) o << "probe " << p.ukind << " " << p.k << " " << p.word << (c.resolved ? " resolved" : "") << "\n";
  return o.str();
}

bool
from_text(const std::string &t, ZCase &c)
{
  std::istringstream in(t);
  std::string line;
  while (std::getline(in, line)) {
    if (line.empty() || line[0] == '#') continue;
    std::istringstream ls(line);
    std::string w;
    ls >> w;
    if (w == "prop") ls >> c.prop;
    else if (w == "class") { std::string v; ls >> v; c.cls = v == "approx"; }
    else if (w == "type") { std::string v; ls >> v; c.type = v == "u32" ? 0 : v == "u64" ? 1 : v == "i32" ? 2 : 3; }
    else if (w == "min_s") ls >> c.min_s;
    else if (w == "min_u") ls >> c.min_u;
    else if (w == "n") ls >> c.n;
    else if (w == "alpha") { std::string v; ls >> v; c.alpha = strtod(v.c_str(), nullptr); }
    else if (w == "threads") ls >> c.threads;
    else if (w == "rounds") ls >> c.rounds;
    else if (w == "engseed") ls >> c.engseed;
    else if (w == "seqlen") ls >> c.seqlen;
    else if (w == "probe") { Probe p; std::string r; ls >> p.ukind >> p.k >> p.word >> r; if (r == "resolved") c.resolved = true; c.probes.push_back(p); }
  }
  return true;
}

struct Verdict {
  std::vector<std::pair<std::string, std::string>> reports;  // kind, message
  bool nontrivial = false;
  std::vector<std::string> labels;
  double max_err_ratio = 0;  // C18: largest observed error / tolerance
  void fail(const std::string &k, const std::string &m) { if (reports.size() < 8) reports.emplace_back(k, m); }
};

template <class T> struct Lim { static constexpr long double lo = static_cast<long double>(std::numeric_limits<T>::min()); static constexpr long double hi = static_cast<long double>(std::numeric_limits<T>::max()); };

// word w such that the variate drawn by uniform_real_distribution<double>{0,1} from Eng is (close to) u
uint64_t
word_for(double u)
{
  if (!(u > 0.0)) return 0;
  if (u >= 1.0) return ~0ULL;
  const long double x = static_cast<long double>(u) * 18446744073709551616.0L;
  if (x >= 18446744073709551615.0L) return ~0ULL;
  return static_cast<uint64_t>(x);
}

double
variate_of(const std::vector<uint64_t> &w)
{
  Eng e{&w};
  std::uniform_real_distribution<double> d{0.0, 1.0};
  return d(e);
}

template <class T, template <class> class Z>
void
check_c06(ZCase &c, Verdict &v)
{
  const T mn = std::is_signed_v<T> ? static_cast<T>(c.min_s) : static_cast<T>(c.min_u);
  const T mx = static_cast<T>(mn + static_cast<T>(c.n - 1));
  const Z<T> z{mn, mx, c.alpha};
  const Z<T> dflt{};
  // a second object that is first used with other parameters and then re-assigned to this case's parameters:
  // the result must depend on the current parameters and the engine only, not on what the object (or an
  // object at the same address) was before
  const uint64_t n2 = 1 + (c.n * 7 + 3) % std::min<uint64_t>(61, c.n);  // <= n: stays inside the admissible range
  Z<T> reused{mn, static_cast<T>(mn + static_cast<T>(n2 - 1)), c.alpha == 0.0 ? 1.5 : c.alpha * 0.5};
  const bool huge = c.n > 50000000ULL;  // construction is O(n / 100) for the approximate class: one object only
  // resolve the probes' engine words from this case's CDF
  for (auto &p : c.probes) {
    if (!c.resolved) {
      const uint64_t k = p.k % c.n;
      double u = 0;
      switch (p.ukind) {
        case kAtBreak: u = z.GetCDF(static_cast<T>(k)); break;
        case kBelowBreak: u = std::nextafter(z.GetCDF(static_cast<T>(k)), 0.0); break;
        case kAboveBreak: u = std::nextafter(z.GetCDF(static_cast<T>(k)), 2.0); break;
        case kZero: u = 0.0; break;
        case kMaxBelowOne: u = std::nextafter(1.0, 0.0); break;
        default: u = -1; break;
      }
      if (p.ukind != kArbitrary) p.word = word_for(u);
    }
  }
  auto judge = [&](const Z<T> &gen, const Probe &p, const char *which) {
    std::vector<uint64_t> words{p.word};
    const double u = variate_of(words);
    Eng e{&words};
    const T r = gen(e);
    char b[400];
    if (r < mn || r > mx) {
      snprintf(b, sizeof b, "%s: result %" PRId64 " outside [min, max] (n=%" PRIu64 ", alpha=%.17g, u=%.17g)", which, static_cast<int64_t>(r), c.n, c.alpha, u);
      v.fail("ZIPF-RANGE", b);
      return;
    }
    const uint64_t bin = static_cast<uint64_t>(r - mn);
    const double hi = gen.GetCDF(static_cast<T>(bin));
    const double lo = bin == 0 ? -1.0 : gen.GetCDF(static_cast<T>(bin - 1));
    if (!(u <= hi) || !(lo <= u)) {
      snprintf(b, sizeof b, "%s %s n=%" PRIu64 " alpha=%.17g: u=%.17g mapped to bin %" PRIu64 " but GetCDF(bin-1)=%.17g GetCDF(bin)=%.17g", which, c.cls ? "approx" : "exact", c.n, c.alpha, u, bin, lo, hi);
      v.fail(c.cls && c.n > 100 && bin >= 98 && bin <= 101 ? "ZIPF-INVCDF-SEAM" : "ZIPF-INVCDF", b);
    }
    // non-trivial: u within 1 ulp of a breakpoint, or first/last bin
    if (bin == 0 || bin == c.n - 1 || std::nextafter(u, 2.0) >= hi || (bin > 0 && std::nextafter(u, 0.0) <= lo)) v.nontrivial = true;
  };
  // 1. consecutive draws from one generator
  for (auto &p : c.probes) judge(z, p, "fresh generator");
  // 2. an object that was sampled with other parameters, then re-assigned
  if (!huge) {
    std::vector<uint64_t> w0{c.probes.empty() ? 0x8000000000000000ULL : c.probes[0].word};
    Eng e0{&w0};
    (void)reused(e0);
    reused = Z<T>{mn, mx, c.alpha};
    for (auto &p : c.probes) judge(reused, p, "re-assigned generator");
  }
  // 3. default-constructed generators always return 0
  for (auto &p : c.probes) {
    std::vector<uint64_t> words{p.word};
    Eng e2{&words};
    if (dflt(e2) != 0) v.fail("ZIPF-DEFAULT", "a default-constructed generator returned a non-zero value");
  }
  v.labels.push_back(c.n <= 100 ? "n<=100" : c.n <= 1000 ? "n<=1000" : "n>1000");
}

long double
ref_term(uint64_t i, double alpha)
{
  return powl(static_cast<long double>(i), -static_cast<long double>(alpha));
}

template <class T>
void
check_c18(ZCase &c, Verdict &v)
{
  const T mn = std::is_signed_v<T> ? static_cast<T>(c.min_s) : static_cast<T>(c.min_u);
  const T mx = static_cast<T>(mn + static_cast<T>(c.n - 1));
  const uint64_t n = c.n;
  // independent reference: Kahan-summed partial sums in long double
  std::vector<long double> ref(n);
  long double sum = 0, comp = 0;
  for (uint64_t i = 1; i <= n; i++) {
    const long double y = ref_term(i, c.alpha) - comp;
    const long double t = sum + y;
    comp = (t - sum) - y;
    sum = t;
    ref[i - 1] = sum;
  }
  const long double total = sum;
  char b[400];
  // which object is evaluated is a function of the case: 0 the constructed one, 1 a copy whose source was then
  // assigned another skew, 2 a copy-assigned object whose source was destroyed
  const int via = static_cast<int>((n + static_cast<uint64_t>(c.type)) % 3);
  v.labels.push_back(via == 0 ? "via=direct" : via == 1 ? "via=copy" : "via=assigned");
  auto make = [&](auto tag) {
    using Z = typename decltype(tag)::type;
    if (via == 0) return Z{mn, mx, c.alpha};
    auto source = std::make_unique<Z>(mn, mx, c.alpha);
    if (via == 1) {
      Z out{*source};
      *source = Z{mn, mx, c.alpha == 0.0 ? 1.25 : c.alpha * 0.5};
      return out;
    }
    Z out{};
    out = *source;
    source.reset();
    return out;
  };
  if (c.cls == 0) {
    const ZipfDistribution<T> z = make(std::type_identity<ZipfDistribution<T>>{});
    const double tol = 4.0 * static_cast<double>(n) * 0x1p-53 + 1e-15;
    double prev = 0;
    for (uint64_t k = 0; k < n; k++) {
      const double got = z.GetCDF(static_cast<T>(k));
      const double want = static_cast<double>(ref[k] / total);
      const double err = std::fabs(got - want);
      v.max_err_ratio = std::max(v.max_err_ratio, err / tol);
      if (err > tol) {
        snprintf(b, sizeof b, "exact n=%" PRIu64 " alpha=%.17g: GetCDF(%" PRIu64 ")=%.17g but the normalised partial sum is %.17g (|diff| %.3g > %.3g)", n, c.alpha, k, got, want, err, tol);
        v.fail("ZIPF-CDF-VALUE", b);
        break;
      }
      if (got < prev) {  // strictly as stated: non-decreasing in k, including the step to the pinned last bin
        snprintf(b, sizeof b, "exact n=%" PRIu64 " alpha=%.17g: GetCDF decreases at bin %" PRIu64 " (%.17g -> %.17g)", n, c.alpha, k, prev, got);
        v.fail("ZIPF-CDF-MONOTONE", b);
        break;
      }
      prev = got;
    }
    if (z.GetCDF(static_cast<T>(n - 1)) != 1.0) v.fail("ZIPF-CDF-LAST", "exact: GetCDF(last bin) is not exactly 1");
    v.nontrivial = n >= 2;
  } else {
    const ApproxZipfDistribution<T> a = make(std::type_identity<ApproxZipfDistribution<T>>{});
    if (a.GetCDF(static_cast<T>(n - 1)) != 1.0) {
      snprintf(b, sizeof b, "approx n=%" PRIu64 " alpha=%.17g: GetCDF(last bin)=%.17g is not exactly 1", n, c.alpha, a.GetCDF(static_cast<T>(n - 1)));
      v.fail("ZIPF-CDF-LAST", b);
    }
    if (n <= 100) {
      const ZipfDistribution<T> z{mn, mx, c.alpha};
      for (uint64_t k = 0; k < n; k++) {
        // "reproduces the exact values": equal up to the rounding bound of the exact class (a different but
        // equally accurate evaluation order in one of the two classes is not a violation)
        if (!(std::fabs(a.GetCDF(static_cast<T>(k)) - z.GetCDF(static_cast<T>(k))) <= 4.0 * static_cast<double>(n) * 0x1p-53 + 1e-15)) {
          snprintf(b, sizeof b, "approx n=%" PRIu64 " alpha=%.17g: GetCDF(%" PRIu64 ")=%.17g differs from the exact class %.17g", n, c.alpha, k, a.GetCDF(static_cast<T>(k)), z.GetCDF(static_cast<T>(k)));
          v.fail("ZIPF-APPROX-EXACT", b);
          break;
        }
      }
      v.nontrivial = n >= 2;
    } else if (n >= 1000 && c.alpha >= 0.0 && c.alpha <= 3.0) {
      double worst = 0;
      uint64_t wk = 0;
      for (uint64_t k = 0; k < n; k++) {
        const double got = a.GetCDF(static_cast<T>(k));
        const double want = static_cast<double>(ref[k] / total);
        const double err = std::fabs(got - want);
        if (err > worst || !(err == err)) {
          worst = (err == err) ? err : 1e9;
          wk = k;
        }
      }
      v.max_err_ratio = std::max(v.max_err_ratio, worst / 0.01);
      if (worst > 0.01) {
        const bool near1 = std::fabs(1.0 - c.alpha) < 0x1p-40 && c.alpha != 1.0;
        const bool tail = (n - 100) % 100 != 0;
        snprintf(b, sizeof b, "approx n=%" PRIu64 " alpha=%.17g: |GetCDF(%" PRIu64 ") - exact| = %.4g > 0.01", n, c.alpha, wk, worst);
        v.fail(near1 ? "ZIPF-APPROX-CLOSE-NEAR1" : tail ? "ZIPF-APPROX-CLOSE-TAIL" : "ZIPF-APPROX-CLOSE", b);
      }
      v.nontrivial = true;
    } else {
      v.labels.push_back("approx_outside_closeness_domain");
      v.nontrivial = n >= 2;
    }
  }
  v.labels.push_back((n - 100) % 100 == 0 ? "n=100+100m" : "n!=100+100m");
}

template <class T, template <class> class Z>
void
check_c19(ZCase &c, Verdict &v)
{
  const T mn = std::is_signed_v<T> ? static_cast<T>(c.min_s) : static_cast<T>(c.min_u);
  const T mx = static_cast<T>(mn + static_cast<T>(c.n - 1));
  auto seq = [&](const Z<T> &z, uint64_t seed) {
    std::mt19937_64 e{seed};
    std::vector<T> out;
    for (int i = 0; i < c.seqlen; i++) out.push_back(z(e));
    return out;
  };
  const Z<T> z{mn, mx, c.alpha};
  // history: this thread first samples a generator with other parameters; outputs of `z` must not depend on it
  {
    const uint64_t n2 = 1 + (c.n * 5 + 1) % std::min<uint64_t>(997, c.n);
    const Z<T> other{mn, static_cast<T>(mn + static_cast<T>(n2 - 1)), c.alpha == 0.0 ? 0.75 : c.alpha * 0.5};
    std::mt19937_64 e{c.engseed ^ 0xabcdefULL};
    for (int i = 0; i < 3; i++) (void)other(e);
  }
  const auto base = seq(z, c.engseed);
  {
    // ... and a thread that has never sampled anything gets the same sequence from the same engine state
    std::vector<T> fresh;
    std::thread th([&] { fresh = seq(z, c.engseed); });
    th.join();
    if (fresh != base) v.fail("ZIPF-PURE", "the sequence depends on what the sampling thread drew from other generators before (a fresh thread gets a different one)");
  }
  const Z<T> twin{mn, mx, c.alpha};
  if (seq(twin, c.engseed) != base) v.fail("ZIPF-PURE", "two generators with equal parameters disagree on the same engine state");
  if (seq(z, c.engseed) != base) v.fail("ZIPF-PURE", "sampling changed the generator: a second run from the same engine state differs");
  Z<T> copy{z};
  if (seq(copy, c.engseed) != base) v.fail("ZIPF-PURE", "a copy disagrees with the original");
  Z<T> assigned{};
  assigned = z;
  if (seq(assigned, c.engseed) != base) v.fail("ZIPF-PURE", "a copy-assigned generator disagrees with the original");
  {
    // copies own their state: re-parameterising (same bin count, other skew) and then destroying the source
    // must not change what a copy-constructed / copy-assigned generator returns
    auto source = std::make_unique<Z<T>>(mn, mx, c.alpha);
    Z<T> cc{*source};
    Z<T> ca{};
    ca = *source;
    const Z<T> other_skew{mn, mx, c.alpha == 0.0 ? 1.25 : c.alpha * 0.5};
    *source = other_skew;
    if (seq(cc, c.engseed) != base) v.fail("ZIPF-PURE", "a copy-constructed generator changed when its source was assigned other parameters");
    if (seq(ca, c.engseed) != base) v.fail("ZIPF-PURE", "a copy-assigned generator changed when its source was assigned other parameters");
    source.reset();
    const Z<T> filler{mn, mx, c.alpha == 0.0 ? 2.5 : c.alpha * 0.25};  // may re-use the freed storage
    (void)filler;
    if (seq(cc, c.engseed) != base) v.fail("ZIPF-PURE", "a copy-constructed generator changed when its source was destroyed");
    if (seq(ca, c.engseed) != base) v.fail("ZIPF-PURE", "a copy-assigned generator changed when its source was destroyed");
  }
  Z<T> src{mn, mx, c.alpha};
  (void)seq(src, c.engseed + 1);  // sample before moving
  Z<T> moved{std::move(src)};
  if (seq(moved, c.engseed) != base) v.fail("ZIPF-PURE", "a move-constructed generator disagrees with the original");
  Z<T> massigned{};
  massigned = std::move(moved);
  if (seq(massigned, c.engseed) != base) v.fail("ZIPF-PURE", "a move-assigned generator disagrees with the original");
  // scripted engine as well
  {
    std::vector<uint64_t> words;
    std::mt19937_64 g{c.engseed ^ 0x5bd1e995};
    for (int i = 0; i < c.seqlen; i++) words.push_back(g());
    Eng e1{&words}, e2{&words};
    for (int i = 0; i < c.seqlen; i++) {
      if (z(e1) != copy(e2)) {
        v.fail("ZIPF-PURE", "original and copy disagree on a scripted engine");
        break;
      }
    }
  }
  // one const generator shared by several threads, each with a private engine. The shared object is a warm one
  // (`z`, sampled above) in even rounds and a cold one (constructed and handed to the threads unsampled) in odd
  // rounds; besides drawing, the threads read GetCDF at thread-specific bins. Every thread must see exactly what it
  // sees alone. (In the ThreadSanitizer build a data race inside these const calls ends the process; the driver
  // reports it as ZIPF-RACE.)
  if (c.threads >= 2) {
    constexpr int kCdfReads = 6;
    const int rounds = c.rounds > 0 ? c.rounds : 2;
    for (int round = 0; round < rounds; round++) {
      std::unique_ptr<const Z<T>> cold;
      if (round % 2 == 1) cold = std::make_unique<const Z<T>>(mn, mx, c.alpha);
      const Z<T> &shared = cold ? *cold : z;
      std::vector<std::vector<T>> got(c.threads);
      std::vector<std::vector<double>> cdf(c.threads);
      std::vector<int> threw(c.threads, 0);
      std::vector<std::thread> th;
      std::atomic<int> go{0};
      auto bin_of = [&](int t, int i) { return static_cast<T>(wk::splitmix(c.engseed + 77 * static_cast<uint64_t>(t) + static_cast<uint64_t>(i)) % c.n); };
      for (int t = 0; t < c.threads; t++) {
        th.emplace_back([&, t] {
          go.fetch_add(1);
          while (go.load() < c.threads) {
          }
          try {
            for (int i = 0; i < kCdfReads / 2; i++) cdf[t].push_back(shared.GetCDF(bin_of(t, i)));
            got[t] = seq(shared, c.engseed + 1000 + t);
            for (int i = kCdfReads / 2; i < kCdfReads; i++) cdf[t].push_back(shared.GetCDF(bin_of(t, i)));
          } catch (const std::exception &) {
            threw[t] = 1;
          }
        });
      }
      for (auto &t : th) t.join();
      for (int t = 0; t < c.threads; t++) {
        if (threw[t]) {
          v.fail("ZIPF-SHARED", "a thread using a shared const generator got an exception");
          continue;
        }
        if (got[t] != seq(twin, c.engseed + 1000 + t)) v.fail("ZIPF-SHARED", std::string("a thread sampling a shared const generator (") + (cold ? "not sampled before" : "sampled before") + ") got a different sequence than it gets alone");
        for (int i = 0; i < kCdfReads; i++) {
          if (cdf[t][i] != twin.GetCDF(bin_of(t, i))) {
            v.fail("ZIPF-SHARED", "GetCDF read by a thread from a shared const generator differs from the value read alone");
            break;
          }
        }
      }
    }
    v.labels.push_back("shared_by_threads");
  }
  size_t distinct = 0;
  {
    auto s = base;
    std::sort(s.begin(), s.end());
    distinct = std::unique(s.begin(), s.end()) - s.begin();
  }
  v.nontrivial = c.seqlen >= 16 && distinct >= 2;
  // max < min must be rejected by an exception (both classes, this type): the generated range swapped, and
  // inverted pairs around the limits and around the sign boundary of the same-width signed type
  {
    const T tmax = std::numeric_limits<T>::max(), tmin = std::numeric_limits<T>::min();
    const T half = static_cast<T>(std::is_signed_v<T> ? 0 : (tmax / 2) + 1);
    const T a = static_cast<T>(c.engseed % 7), b = static_cast<T>((c.engseed >> 8) % 5);
    std::vector<std::pair<T, T>> inv;  // (min, max) with max < min
    // (pairs are chosen so that a generator that is wrongly accepted has few bins: `max - min + 1` wraps to a small
    // number; far-apart signed bounds are not used because that expression overflows before the constructor validates)
    if constexpr (!std::is_signed_v<T>) {
      inv.emplace_back(static_cast<T>(tmax - a), static_cast<T>(tmin + b));  // min >= 2^(w-1) > max
    }
    if (c.n >= 2 && c.n <= 100000) inv.emplace_back(mx, mn);
    inv.emplace_back(static_cast<T>(mn + 1), mn);
    if (a + b == 0) inv.emplace_back(static_cast<T>(half), static_cast<T>(half - 1));
    for (auto &[lo, hi] : inv) {
      if (!(hi < lo)) continue;
      bool thrown = false;
      try {
        const Z<T> bad{lo, hi, c.alpha};
        (void)bad;
      } catch (const std::exception &) {
        thrown = true;
      }
      if (!thrown) {
        v.fail("ZIPF-REJECT", "construction with min=" + std::to_string(lo) + " max=" + std::to_string(hi) + " (max < min) did not throw");
        break;
      }
    }
  }
}

template <class T>
void
dispatch_t(ZCase &c, Verdict &v)
{
  if (c.prop == "C06") {
    if (c.cls) check_c06<T, ApproxZipfDistribution>(c, v); else check_c06<T, ZipfDistribution>(c, v);
  } else if (c.prop == "C18") {
    check_c18<T>(c, v);
  } else {
    if (c.cls) check_c19<T, ApproxZipfDistribution>(c, v); else check_c19<T, ZipfDistribution>(c, v);
  }
}

void run_case_inner(ZCase &c, Verdict &v);

// admissible parameters must be accepted: an exception escaping a constructor / GetCDF / operator() on them is a failure
void
run_case(ZCase &c, Verdict &v)
{
  try {
    run_case_inner(c, v);
  } catch (const std::exception &e) {
    v.fail("ZIPF-EXCEPTION", std::string("an exception escaped for admissible parameters (n=") + std::to_string(c.n) + ", alpha=" + std::to_string(c.alpha) + "): " + e.what());
  }
}

void
run_case_inner(ZCase &c, Verdict &v)
{
  v.labels.push_back(std::string("class=") + (c.cls ? "approx" : "exact"));
  v.labels.push_back(std::string("type=") + (c.type == 0 ? "u32" : c.type == 1 ? "u64" : c.type == 2 ? "i32" : "i64"));
  if (c.n >= (1ULL << 28)) v.labels.push_back("n>=2^28");
  if (c.alpha == 0) v.labels.push_back("alpha=0");
  else if (c.alpha > 3) v.labels.push_back("alpha>3");
  else if (std::fabs(c.alpha - 1) < 1e-3) v.labels.push_back("alpha~1");
  switch (c.type) {
    case 0: dispatch_t<uint32_t>(c, v); break;
    case 1: dispatch_t<uint64_t>(c, v); break;
    case 2: dispatch_t<int32_t>(c, v); break;
    default: dispatch_t<int64_t>(c, v); break;
  }
}

}  // namespace
