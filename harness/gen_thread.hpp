#pragma once
#include <string>
#include <vector>

#include "threadcase.hpp"

namespace threadgen
{
threadcase::Case generate(const std::string &profile, int cap, uint64_t seed, uint64_t index);
bool classify(const std::string &profile, const threadcase::Case &c, const threadcase::Outcome &o, std::vector<std::string> &labels);
}  // namespace threadgen
