// vsched runtime: baton-passing scheduler over real OS threads, yield-fair
// stuck detection, vector-clock happens-before, heap log.
// Compiled WITHOUT the prelude.
#include "vsched_api.hpp"

#include <algorithm>
#include <atomic>
#include <cstdio>
#include <cstdlib>
#include <cstring>
#include <memory>
#include <new>
#include <semaphore>
#include <thread>
#include <unordered_map>

namespace vsched
{
namespace
{
struct VC {
  uint32_t c[kMaxT] = {};
  void
  join(const VC &o)
  {
    for (int i = 0; i < kMaxT; i++) c[i] = std::max(c[i], o.c[i]);
  }
};

struct Watch {
  const char *lo = nullptr;
  const char *hi = nullptr;
  int tag = 0;
  WatchCb cb = nullptr;
};

struct VT {
  std::binary_semaphore sem{0};
  int state = 0;  // 0 waiting for start condition, 1 running body, 2 body done (thread-exit cleanup), 3 exited
  bool yielding = false;
  bool parked = false;  // park(): not chosen by yields / exits while another thread can run; runs when a preemption names it
  uint64_t idle = 0;
  uint32_t lstep = 0;
  uint32_t ncas = 0;
  VC clk, acqp, relf;
  size_t probe = 0;
  StartKind sk = kBegin;
  int dep = -1;
  const void *seen[24];
  int nseen = 0;
  Watch watch[4];
};

struct Region {
  const char *lo = nullptr;
  const char *hi = nullptr;
  const char *kind = nullptr;
  const char *what = nullptr;
  bool self = false;  // accesses by the owner itself are reported as well
};

struct Exec {
  Region region[kMaxT];
  int nregions = 0;
  std::unique_ptr<VT> t[kMaxT];
  int n = 0;
  uint64_t step = 0;
  int nopreempt = 0;
  bool np_broken = false;
  Config cfg;
  std::unordered_map<uint64_t, int> preempt;  // (thread<<32|lstep) -> target
  std::unordered_map<uint64_t, char> casfail;
  std::unordered_map<const void *, VC> locrel;
  std::binary_semaphore done{0};
  bool on = false;
  RunStats st;
};

Exec *E = nullptr;
std::vector<Report> g_reports;
RunStats g_stats;
uint64_t g_total_steps = 0;
FatalFn g_fatal = nullptr;
void (*g_body_done)(int) = nullptr;
void (*g_thread_exit)(int) = nullptr;
void (*g_on_step)(int) = nullptr;
void (*g_on_report)(const Report &) = nullptr;
thread_local int my = -1;

[[noreturn]] void
fatal(Verdict v)
{
  g_stats = E->st;
  g_stats.steps = E->step;
  if (g_fatal) g_fatal(v);
  fprintf(stderr, "vsched: fatal verdict %d without handler\n", static_cast<int>(v));
  _Exit(static_cast<int>(v));
}

bool
schedulable(int i)
{
  const int s = E->t[i]->state;
  return s == 1 || s == 2;
}

// next schedulable thread other than `me`, round-robin from me+1; prefer non-yielding
int
pick_next(int me, bool allow_yielding, int nth = 0, int parked_mode = 0)
{
  // parked_mode 0: parked threads are skipped; 1: parked threads count like the others (explicit preemption targets);
  // 2: parked threads only
  int cand[kMaxT];
  int nc = 0;
  for (int k = 1; k <= E->n; k++) {
    const int i = (me + k + E->n) % E->n;
    if (i == me) continue;
    if (!schedulable(i)) continue;
    if (parked_mode == 0 && E->t[i]->parked) continue;
    if (parked_mode == 2 && !E->t[i]->parked) continue;
    if (parked_mode != 2 && !allow_yielding && E->t[i]->yielding && !E->t[i]->parked) continue;
    cand[nc++] = i;
  }
  if (nc == 0) return -1;
  return cand[nth % nc];
}

// a thread gives up the processor (yield, wait-loop iteration, exit): a thread that can make progress first, then a
// parked one (it is released), then a waiting one
int
pick_after_yield(int me)
{
  int n = pick_next(me, false);
  if (n < 0) n = pick_next(me, true, 0, 2);
  if (n < 0) n = pick_next(me, true);
  return n;
}

void
switch_to(int n)
{
  const int me = my;
  E->st.switches++;
  if (E->cfg.trace) fprintf(stderr, "  [switch T%d -> T%d at step %lu]\n", me, n, E->step);
  E->t[n]->parked = false;
  E->t[n]->sem.release();
  E->t[me]->sem.acquire();
}

void
start_dependents(int j, StartKind when)
{
  for (int i = 0; i < E->n; i++) {
    auto &v = *E->t[i];
    if (v.state == 0 && v.dep == j && v.sk == when) v.state = 1;
  }
}

struct Sentinel {
  bool armed = false;
  ~Sentinel()
  {
    if (!armed) return;
    const int me = my;
    if (g_thread_exit) g_thread_exit(me);
    E->t[me]->state = 3;
    start_dependents(me, kAfterExit);
    int n = pick_after_yield(me);
    my = -1;
    if (n < 0) {
      E->done.release();
    } else {
      if (E->cfg.trace) fprintf(stderr, "  [exit T%d -> T%d at step %lu]\n", me, n, E->step);
      E->t[n]->parked = false;
      E->t[n]->sem.release();
    }
  }
};

void
check_stuck()
{
  bool any = false;
  for (int i = 0; i < E->n; i++) {
    if (!schedulable(i)) continue;
    any = true;
    if (E->t[i]->idle < E->cfg.K) return;
  }
  if (any) fatal(kStuck);
}

void
sched_decision(Kind k)
{
  auto &me = *E->t[my];
  if (E->nopreempt > 0) return;
  const uint32_t ls = me.lstep++;
  E->st.lsteps[my] = me.lstep;
  int n = -1;
  if (!E->preempt.empty()) {
    auto it = E->preempt.find((static_cast<uint64_t>(my) << 32) | ls);
    if (it != E->preempt.end()) {
      n = pick_next(my, false, it->second, 1);
      if (n < 0) n = pick_next(my, true, it->second, 1);
      if (n >= 0) E->st.preempts_taken++;
    }
  }
  bool by_yield = false;
  if (n < 0 && (me.yielding || k == kHint)) {
    n = pick_after_yield(my);
    if (n >= 0) {
      E->st.yields++;
      by_yield = true;
    }
  }
  if (n >= 0 && n != my) {
    switch_to(n);
    // resumed: the yield has been served (a spinning thread marks itself again in its next iteration)
    if (by_yield) me.yielding = false;
  }
}

void
step_common(Kind k, const void *addr)
{
  auto &me = *E->t[my];
  E->step++;
  if (k != kHarness) me.idle++;  // only steps of the code under test count towards "waiting without progress"
  if (E->cfg.trace) {
    static const char *kn[] = {"load", "store", "rmw", "casfail", "fence", "plainR", "plainW", "hint", "harness"};
    fprintf(stderr, "%6lu T%d@%u %-7s %p%s\n", E->step, my, me.lstep, kn[k], addr, me.yielding ? " (yielding)" : "");
  }
  if (E->step > E->cfg.maxsteps) fatal(kStepBound);
  if (g_on_step) g_on_step(my);
  if (me.idle >= E->cfg.K) check_stuck();
}

}  // namespace

bool
active()
{
  return my >= 0 && E != nullptr && E->on;
}

int
self()
{
  return my;
}

void
check_regions(const void *addr)
{
  if (E->nregions == 0 || addr == nullptr) return;
  const char *a = static_cast<const char *>(addr);
  for (int o = 0; o < kMaxT; o++) {
    const auto &r = E->region[o];
    if (r.lo != nullptr && (o != my || r.self) && a >= r.lo && a < r.hi) {
      report(r.kind, std::string("T") + std::to_string(my) + " accesses " + r.what + " of T" + std::to_string(o));
      return;
    }
  }
}

void
pre_op(Kind k, const void *addr)
{
  if (!active()) return;
  check_regions(addr);
  step_common(k, addr);
  sched_decision(k);
}

void
post_write(const void *addr, bool changed, uint64_t newval)
{
  if (!active()) return;
  auto &me = *E->t[my];
  if (changed) {
    for (int i = 0; i < E->n; i++) {
      auto &v = *E->t[i];
      v.yielding = false;
      v.idle = 0;
      v.nseen = 0;
    }
    const char *a = static_cast<const char *>(addr);
    for (auto &w : me.watch) {
      if (w.cb != nullptr && a >= w.lo && a < w.hi) w.cb(w.tag);
    }
  }
  if (E->cfg.trace) fprintf(stderr, "         T%d wrote %p := 0x%lx%s\n", my, addr, newval, changed ? "" : " (unchanged)");
  E->step++;
  sched_decision(kStore);
}

void
note_read(const void *addr)
{
  if (!active()) return;
  auto &me = *E->t[my];
  for (int i = 0; i < me.nseen; i++) {
    if (me.seen[i] == addr) {
      me.yielding = true;  // re-read with no mutation in between: a wait loop iteration
      return;
    }
  }
  if (me.nseen < 24) me.seen[me.nseen++] = addr;
}

bool
spurious_cas_failure()
{
  if (!active()) return false;
  auto &me = *E->t[my];
  const uint32_t k = me.ncas++;
  if (E->casfail.empty()) return false;
  auto it = E->casfail.find((static_cast<uint64_t>(my) << 32) | k);
  if (it == E->casfail.end()) return false;
  E->st.casfails_taken++;
  return true;
}

void
yield_hint()
{
  if (!active()) return;
  auto &me = *E->t[my];
  me.yielding = true;
  if (E->nopreempt > 0) E->np_broken = true;
  step_common(kHint, nullptr);
  if (E->nopreempt > 0) {
    // a waiting thread inside an observation scope: the scope is void, let others run
    const int saved = E->nopreempt;
    E->nopreempt = 0;
    sched_decision(kHint);
    E->nopreempt = saved;
    return;
  }
  sched_decision(kHint);
}

size_t
thread_probe()
{
  if (my >= 0 && E != nullptr) return E->t[my]->probe;
  return 0;
}

void
hb_load(const void *loc, MO m)
{
  auto &me = *E->t[my];
  auto it = E->locrel.find(loc);
  if (it == E->locrel.end()) return;
  if (m.acq) {
    me.clk.join(it->second);
  } else {
    me.acqp.join(it->second);
  }
}

void
hb_store(const void *loc, MO m)
{
  auto &me = *E->t[my];
  if (m.rel) {
    E->locrel[loc] = me.clk;
    me.clk.c[my]++;
  } else {
    E->locrel[loc] = me.relf;
  }
}

void
hb_rmw(const void *loc, MO m)
{
  auto &me = *E->t[my];
  if (m.rel) {
    E->locrel[loc].join(me.clk);
    me.clk.c[my]++;
  } else {
    E->locrel[loc].join(me.relf);
  }
}

void
hb_fence(MO m)
{
  auto &me = *E->t[my];
  if (m.acq) me.clk.join(me.acqp);
  if (m.rel) {
    me.relf = me.clk;
    me.clk.c[my]++;
  }
}

uint64_t
plain::read(bool speculative)
{
  if (!active()) return v;
  pre_op(kPlainR, this);
  if (!speculative) {
    auto &me = *E->t[my];
    if (wt >= 0 && wt != my && wc > me.clk.c[wt]) report("RACE", "read not ordered after the last write (T" + std::to_string(wt) + ")");
    r[my] = me.clk.c[my];
  }
  return v;
}

void
plain::write(uint64_t x)
{
  if (!active()) {
    v = x;
    return;
  }
  pre_op(kPlainW, this);
  auto &me = *E->t[my];
  if (wt >= 0 && wt != my && wc > me.clk.c[wt]) report("RACE", "write not ordered after the last write (T" + std::to_string(wt) + ")");
  for (int i = 0; i < kMaxT; i++) {
    if (i != my && r[i] > me.clk.c[i]) {
      report("RACE", "write not ordered after a read by T" + std::to_string(i));
      break;
    }
  }
  wt = my;
  wc = me.clk.c[my];
  v = x;
  E->step++;
  sched_decision(kPlainW);
}

void
report(const char *kind, const std::string &msg)
{
  g_reports.push_back(Report{kind, msg, my, E ? E->step : 0});
  if (g_on_report) g_on_report(g_reports.back());
  if (E && E->cfg.trace) fprintf(stderr, "  !! REPORT %s: %s (T%d step %lu)\n", kind, msg.c_str(), my, E->step);
}

void
nopreempt_enter()
{
  if (!active()) return;
  if (E->nopreempt++ == 0) E->np_broken = false;
}

bool
nopreempt_leave()
{
  if (!active()) return true;
  E->nopreempt--;
  return !E->np_broken;
}

void
harness_point()
{
  if (!active()) return;
  step_common(kHarness, nullptr);
  sched_decision(kHarness);
}

void
preempt_now(int target)
{
  if (!active() || E->nopreempt > 0) return;
  int n = pick_next(my, false, target, 1);
  if (n < 0) n = pick_next(my, true, target, 1);
  if (n >= 0) {
    E->st.preempts_taken++;
    switch_to(n);
  }
}

void
park()
{
  if (!active() || E->nopreempt > 0) return;
  auto &me = *E->t[my];
  step_common(kHarness, nullptr);
  me.parked = true;
  const int n = pick_after_yield(my);
  if (n >= 0 && n != my) switch_to(n);
  me.parked = false;
}

void
harness_yield()
{
  if (!active() || E->nopreempt > 0) return;
  auto &me = *E->t[my];
  step_common(kHarness, nullptr);
  me.yielding = true;
  sched_decision(kHint);
}

void
region_set(int owner, const void *lo, const void *hi, const char *kind, const char *what)
{
  if (E == nullptr || owner < 0 || owner >= kMaxT) return;
  auto &r = E->region[owner];
  if (r.lo == nullptr) E->nregions++;
  r.lo = static_cast<const char *>(lo);
  r.hi = static_cast<const char *>(hi);
  r.kind = kind;
  r.what = what;
  r.self = false;
}

void
region_include_owner(int owner, bool on)
{
  if (E == nullptr || owner < 0 || owner >= kMaxT) return;
  E->region[owner].self = on;
}

void
region_clear(int owner)
{
  if (E == nullptr || owner < 0 || owner >= kMaxT) return;
  auto &r = E->region[owner];
  if (r.lo != nullptr) E->nregions--;
  r.lo = nullptr;
}

void
watch_set(int slot, const void *lo, const void *hi, int tag, WatchCb cb)
{
  if (my < 0 || E == nullptr) return;
  auto &w = E->t[my]->watch[slot];
  w.lo = static_cast<const char *>(lo);
  w.hi = static_cast<const char *>(hi);
  w.tag = tag;
  w.cb = cb;
}

void
watch_clear(int slot)
{
  if (my < 0 || E == nullptr) return;
  E->t[my]->watch[slot].cb = nullptr;
}

void
set_fatal_handler(FatalFn f)
{
  g_fatal = f;
}

std::vector<Report> &
reports()
{
  return g_reports;
}

void
clear_reports()
{
  g_reports.clear();
}

const RunStats &
stats()
{
  return g_stats;
}

uint64_t
now_step()
{
  return E ? E->step : 0;
}

uint64_t
total_steps()
{
  return g_total_steps + (E ? E->step : 0);
}

void
on_body_done(void (*cb)(int))
{
  g_body_done = cb;
}

void
on_thread_exit(void (*cb)(int))
{
  g_thread_exit = cb;
}

void
on_step(void (*cb)(int))
{
  g_on_step = cb;
}

void
on_report(void (*cb)(const Report &))
{
  g_on_report = cb;
}

void
run(std::vector<ThreadSpec> &threads, const Schedule &s, const Config &c)
{
  Exec ex;
  E = &ex;
  ex.cfg = c;
  ex.n = static_cast<int>(threads.size());
  if (ex.n > kMaxT) ex.n = kMaxT;
  for (auto &p : s.preempts) {
    if (p.thread >= 0 && p.thread < ex.n) ex.preempt[(static_cast<uint64_t>(p.thread) << 32) | p.lstep] = p.target;
  }
  for (auto &p : s.casfails) {
    if (p.thread >= 0 && p.thread < ex.n) ex.casfail[(static_cast<uint64_t>(p.thread) << 32) | p.nth] = 1;
  }
  for (int i = 0; i < ex.n; i++) {
    ex.t[i] = std::make_unique<VT>();
    auto &v = *ex.t[i];
    v.clk.c[i] = 1;
    v.probe = threads[i].probe;
    v.sk = threads[i].sk;
    v.dep = threads[i].dep;
    if (v.sk == kParked) {
      v.sk = kBegin;
      v.state = 1;
      v.parked = true;
    } else if (v.sk == kBegin || v.dep < 0 || v.dep >= i) {
      v.sk = kBegin;
      v.state = 1;
    }
  }
  std::vector<std::thread> th;
  th.reserve(ex.n);
  for (int i = 0; i < ex.n; i++) {
    th.emplace_back([&threads, i] {
      my = i;
      E->t[i]->sem.acquire();
      thread_local Sentinel sentinel;  // constructed first => destroyed after every library thread_local
      sentinel.armed = true;
      threads[i].body();
      // body returned: the thread is now in its exit path ("no longer running user code")
      E->t[i]->state = 2;
      if (g_body_done) g_body_done(i);
      start_dependents(i, kAfterBody);
      harness_point();
    });
  }
  ex.on = true;
  int first = -1;
  for (int i = 0; i < ex.n; i++) {
    if (ex.t[i]->state == 1) {
      first = i;
      break;
    }
  }
  if (first >= 0) {
    ex.t[first]->sem.release();
    ex.done.acquire();
  }
  for (auto &t : th) t.join();
  ex.on = false;
  ex.st.steps = ex.step;
  g_total_steps += ex.step;
  g_stats = ex.st;
  E = nullptr;
}

/*------------------------------------------------------------------------------
 * Heap log
 *----------------------------------------------------------------------------*/
namespace
{
constexpr size_t kHeapTab = 1u << 15;
void *g_tab[kHeapTab];
HeapClass g_cls;
bool g_tracking = false;
HeapStats g_heap;
thread_local bool tl_lib = false;

size_t
hslot(const void *p)
{
  return (reinterpret_cast<uintptr_t>(p) >> 3) * 0x9E3779B97F4A7C15ULL >> (64 - 15);
}

void
tab_insert(void *p)
{
  size_t i = hslot(p);
  for (size_t k = 0; k < kHeapTab; k++, i = (i + 1) & (kHeapTab - 1)) {
    if (g_tab[i] == nullptr || g_tab[i] == reinterpret_cast<void *>(1)) {
      g_tab[i] = p;
      return;
    }
  }
}

bool
tab_find(const void *p, bool erase)
{
  size_t i = hslot(p);
  for (size_t k = 0; k < kHeapTab; k++, i = (i + 1) & (kHeapTab - 1)) {
    if (g_tab[i] == nullptr) return false;
    if (g_tab[i] == p) {
      if (erase) g_tab[i] = reinterpret_cast<void *>(1);
      return true;
    }
  }
  return false;
}

void
on_alloc(void *p, size_t size, size_t align)
{
  if (!g_tracking || !tl_lib || my < 0) return;
  if (g_cls.size != 0 && g_cls.size != size) return;
  if (g_cls.align != align) return;
  tab_insert(p);
  g_heap.live++;
  g_heap.total++;
  if (g_heap.live > g_heap.max_live) g_heap.max_live = g_heap.live;
}

void
on_free(void *p)
{
  if (!g_tracking || p == nullptr) return;
  if (tab_find(p, true)) {
    g_heap.live--;
    g_heap.frees++;
  }
}
}  // namespace

void
heap_track(const HeapClass &c)
{
  g_cls = c;
  g_heap = HeapStats{};
  std::memset(g_tab, 0, sizeof(g_tab));
  g_tracking = true;
}

void
heap_untrack()
{
  g_tracking = false;
}

void
heap_lib_scope(bool in)
{
  tl_lib = in;
}

HeapStats
heap_stats()
{
  return g_heap;
}

bool
heap_is_live(const void *p)
{
  return tab_find(p, false);
}

void *
vs_alloc(size_t n, size_t align)
{
  void *p = nullptr;
  if (align <= alignof(std::max_align_t)) {
    p = std::malloc(n ? n : 1);
  } else {
    if (posix_memalign(&p, align, n ? n : 1) != 0) p = nullptr;
  }
  if (p == nullptr) throw std::bad_alloc();
  on_alloc(p, n, align <= alignof(std::max_align_t) ? 0 : align);
  return p;
}

void
vs_free(void *p)
{
  on_free(p);
  std::free(p);
}

}  // namespace vsched

void *operator new(std::size_t n) { return vsched::vs_alloc(n, 0); }
void *operator new[](std::size_t n) { return vsched::vs_alloc(n, 0); }
void *operator new(std::size_t n, std::align_val_t a) { return vsched::vs_alloc(n, static_cast<size_t>(a)); }
void *operator new[](std::size_t n, std::align_val_t a) { return vsched::vs_alloc(n, static_cast<size_t>(a)); }
void *operator new(std::size_t n, const std::nothrow_t &) noexcept { try { return vsched::vs_alloc(n, 0); } catch (...) { return nullptr; } }
void *operator new[](std::size_t n, const std::nothrow_t &) noexcept { try { return vsched::vs_alloc(n, 0); } catch (...) { return nullptr; } }
void operator delete(void *p) noexcept { vsched::vs_free(p); }
void operator delete[](void *p) noexcept { vsched::vs_free(p); }
void operator delete(void *p, std::size_t) noexcept { vsched::vs_free(p); }
void operator delete[](void *p, std::size_t) noexcept { vsched::vs_free(p); }
void operator delete(void *p, std::align_val_t) noexcept { vsched::vs_free(p); }
void operator delete[](void *p, std::align_val_t) noexcept { vsched::vs_free(p); }
void operator delete(void *p, std::size_t, std::align_val_t) noexcept { vsched::vs_free(p); }
void operator delete[](void *p, std::size_t, std::align_val_t) noexcept { vsched::vs_free(p); }
void operator delete(void *p, const std::nothrow_t &) noexcept { vsched::vs_free(p); }
void operator delete[](void *p, const std::nothrow_t &) noexcept { vsched::vs_free(p); }
