#pragma once
#include "threadcase.hpp"
namespace threadinterp
{
int capacity();  // DBGROUP_MAX_THREAD_NUM of this build
// Executes one case (process-global IDManager state: call once per process).
void run_case(const threadcase::Case &c, const vsched::Config &cfg, threadcase::Outcome &out, int *phase);
}  // namespace threadinterp
