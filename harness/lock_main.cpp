// Worker for the lock family (C01 C02 C03 C07 C08 C09 C10 C11 C12 C13). No prelude.
//   lock_harness --replay FILE [--trace]
//   lock_harness --gen --profile P --seed S --start I --count N --out DIR
#include <unistd.h>

#include "gen_lock.hpp"
#include "interp_lock.hpp"
#include "worker_common.hpp"

using lockcase::Case;
using lockcase::Outcome;

namespace
{
wk::Counters C;
std::string g_outdir;
std::string g_curtext;
uint64_t g_curindex = 0;
int g_phase = 0;
bool g_replay = false;

const char *
verdict_name(vsched::Verdict v, int phase)
{
  if (v == vsched::kStepBound) return "STEPBOUND";
  return phase >= 2 ? "FINAL_BUSY" : "STUCK";
}

void
flush_result()
{
  if (!g_outdir.empty()) wk::write_file(g_outdir + "/result.json", C.to_json());
}

[[noreturn]] void
on_fatal(vsched::Verdict v)
{
  const char *name = verdict_name(v, g_phase);
  if (g_replay) {
    for (auto &r : vsched::reports()) printf("REPORT %s: %s (T%d step %lu)\n", r.kind.c_str(), r.msg.c_str(), r.thread, r.step);
    printf("VERDICT %s phase=%d steps=%lu\n", name, g_phase, vsched::stats().steps);
    fflush(stdout);
    _exit(v == vsched::kStepBound ? 5 : 3);
  }
  C.evaluations++;
  C.next_index = g_curindex + 1;
  if (v == vsched::kStepBound) {
    C.inconclusive++;
    C.fatal = "STEPBOUND";
  } else {
    C.fatal = name;
    C.report_kinds[name]++;
  }
  C.fatal_phase = g_phase;
  C.fatal_index = g_curindex;
  for (auto &r : vsched::reports()) C.report_kinds[r.kind]++;
  char fn[256];
  snprintf(fn, sizeof fn, "%s/fatal-%lu.case", g_outdir.c_str(), g_curindex);
  wk::write_file(fn, g_curtext);
  C.fatal_file = fn;
  flush_result();
  _exit(v == vsched::kStepBound ? 5 : 3);
}

int
replay(const std::string &file, bool trace)
{
  g_replay = true;
  Case c;
  std::string err;
  if (!lockcase::from_text(wk::read_file(file), c, err)) {
    fprintf(stderr, "parse error: %s\n", err.c_str());
    return 2;
  }
  vsched::Config cfg;
  cfg.trace = trace;
  Outcome out;
  lockinterp::run_case(c, cfg, out, &g_phase);
  for (auto &r : vsched::reports()) printf("REPORT %s: %s (T%d step %lu)\n", r.kind.c_str(), r.msg.c_str(), r.thread, r.step);
  printf("OUTCOME grants=%d executed=%d skipped=%d contended=%d waited_granted=%d conv_raced=%d conflict_sections=%d owning_move=%d later_conflict=%d "
         "validate_raced=%d validated_ok=%d prep_fallback=%d two_waiting=%d group_successor=%d exact=%d nodes=%d\n",
         out.grants, out.executed, out.skipped, out.contended, out.waited_granted, out.conv_raced, out.conflict_sections, out.owning_move,
         out.later_conflict, out.validate_raced, out.validated_ok, out.prep_fallback, out.two_waiting, out.group_successor, out.exact, out.nodes_total);
  printf("VERDICT %s phase=%d steps=%lu\n", vsched::reports().empty() ? "ok" : "REPORTS", g_phase, vsched::stats().steps);
  return vsched::reports().empty() ? 0 : 10;
}

}  // namespace

int
main(int argc, char **argv)
{
  std::string mode, file, profile = "C01", out;
  uint64_t seed = 1, start = 0, count = 100;
  bool trace = false;
  for (int i = 1; i < argc; i++) {
    std::string a = argv[i];
    auto next = [&]() -> std::string { return i + 1 < argc ? argv[++i] : ""; };
    if (a == "--replay") {
      mode = "replay";
      file = next();
    } else if (a == "--gen") {
      mode = "gen";
    } else if (a == "--dump") {
      mode = "dump";
    } else if (a == "--profile") {
      profile = next();
    } else if (a == "--seed") {
      seed = strtoull(next().c_str(), nullptr, 10);
    } else if (a == "--start") {
      start = strtoull(next().c_str(), nullptr, 10);
    } else if (a == "--count") {
      count = strtoull(next().c_str(), nullptr, 10);
    } else if (a == "--out") {
      out = next();
    } else if (a == "--trace") {
      trace = true;
    }
  }
  vsched::set_fatal_handler(on_fatal);
  if (mode == "replay") return replay(file, trace);
  if (mode == "dump") {
    for (uint64_t i = start; i < start + count; i++) {
      Case c = lockgen::generate(profile, seed, i);
      printf("# index %lu\n%s\n", i, lockcase::to_text(c).c_str());
    }
    return 0;
  }
  if (mode != "gen" || out.empty()) {
    fprintf(stderr, "usage: lock_harness --replay FILE [--trace] | --gen --profile P --seed S --start I --count N --out DIR\n");
    return 2;
  }
  g_outdir = out;
  mkdir(out.c_str(), 0777);
  vsched::Config cfg;
  for (uint64_t i = start; i < start + count; i++) {
    Case c = lockgen::generate(profile, seed, i);
    g_curtext = lockcase::to_text(c);
    g_curindex = i;
    wk::write_file(out + "/cur.case", "# index " + std::to_string(i) + "\n" + g_curtext);
    vsched::clear_reports();
    Outcome oc;
    lockinterp::run_case(c, cfg, oc, &g_phase);
    C.evaluations++;
    C.next_index = i + 1;
    C.steps += vsched::stats().steps;
    C.skipped_ops += oc.skipped;
    C.excluded_known += oc.excluded_known;
    C.executed_ops += oc.executed;
    std::vector<std::string> labels;
    const bool nt = lockgen::classify(profile, c, oc, labels);
    for (auto &l : labels) C.labels[l]++;
    if (nt) {
      C.nontrivial++;
      C.nontrivial_hashes.insert(wk::fnv(g_curtext));
      if (C.samples.size() < 3) C.samples.push_back(g_curtext);
    }
    if (!vsched::reports().empty()) {
      std::set<std::string> kinds;
      for (auto &r : vsched::reports()) {
        C.report_kinds[r.kind]++;
        if (kinds.insert(r.kind).second && C.viols.size() < 64) {
          char fn[256];
          snprintf(fn, sizeof fn, "%s/viol-%lu-%s.case", out.c_str(), i, r.kind.c_str());
          wk::write_file(fn, g_curtext);
          C.viols.push_back({r.kind, r.msg, fn, i});
        }
      }
    }
    if ((i & 1023) == 1023) flush_result();
  }
  C.done = true;
  flush_result();
  return 0;
}
