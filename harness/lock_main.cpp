// Worker for the lock family (C01 C02 C03 C07 C08 C09 C10 C11 C12 C13). No prelude.
//   lock_harness --replay FILE [--trace]
//   lock_harness --gen --profile P --seed S --start I --count N --out DIR
#include <unistd.h>

#include "gen_lock.hpp"
#include "interp_lock.hpp"
#include "worker_common.hpp"

using lockcase::Case;
using lockcase::Outcome;

namespace
{
wk::Counters C;
std::string g_outdir;
std::string g_curtext;
uint64_t g_curindex = 0;
int g_phase = 0;
bool g_replay = false;

const char *
verdict_name(vsched::Verdict v, int phase)
{
  if (v == vsched::kStepBound) return "STEPBOUND";
  return phase >= 2 ? "FINAL_BUSY" : "STUCK";
}

void
flush_result()
{
  if (!g_outdir.empty()) wk::write_file(g_outdir + "/result.json", C.to_json());
}

[[noreturn]] void
on_fatal(vsched::Verdict v)
{
  const char *name = verdict_name(v, g_phase);
  if (g_replay) {
    for (auto &r : vsched::reports()) printf("REPORT %s: %s (T%d step %lu)\n", r.kind.c_str(), r.msg.c_str(), r.thread, r.step);
    printf("VERDICT %s phase=%d steps=%lu\n", name, g_phase, vsched::stats().steps);
    fflush(stdout);
    _exit(v == vsched::kStepBound ? 5 : 3);
  }
  C.evaluations++;
  C.next_index = g_curindex + 1;
  if (v == vsched::kStepBound) {
    C.inconclusive++;
    C.fatal = "STEPBOUND";
  } else {
    C.fatal = name;
    C.report_kinds[name]++;
  }
  C.fatal_phase = g_phase;
  C.fatal_index = g_curindex;
  {
    // oracle hits recorded before the fatal verdict belong to this case too
    std::set<std::string> kinds;
    for (auto &r : vsched::reports()) {
      C.report_kinds[r.kind]++;
      if (kinds.insert(r.kind).second && C.viols.size() < 64) {
        char vf[256];
        snprintf(vf, sizeof vf, "%s/viol-%lu-%s.case", g_outdir.c_str(), g_curindex, r.kind.c_str());
        wk::write_file(vf, g_curtext);
        C.viols.push_back({r.kind, r.msg, vf, g_curindex});
      }
    }
  }
  char fn[256];
  snprintf(fn, sizeof fn, "%s/fatal-%lu.case", g_outdir.c_str(), g_curindex);
  wk::write_file(fn, g_curtext);
  C.fatal_file = fn;
  flush_result();
  _exit(v == vsched::kStepBound ? 5 : 3);
}

int
replay(const std::string &file, bool trace)
{
  g_replay = true;
  Case c;
  std::string err;
  if (!lockcase::from_text(wk::read_file(file), c, err)) {
    fprintf(stderr, "parse error: %s\n", err.c_str());
    return 2;
  }
  vsched::Config cfg;
  cfg.trace = trace;
  Outcome out;
  lockinterp::run_case(c, cfg, out, &g_phase);
  for (auto &r : vsched::reports()) printf("REPORT %s: %s (T%d step %lu)\n", r.kind.c_str(), r.msg.c_str(), r.thread, r.step);
  printf("OUTCOME grants=%d executed=%d skipped=%d contended=%d waited_granted=%d conv_raced=%d conflict_sections=%d owning_move=%d later_conflict=%d "
         "validate_raced=%d validated_ok=%d prep_fallback=%d two_waiting=%d group_successor=%d exact=%d nodes=%d\n",
         out.grants, out.executed, out.skipped, out.contended, out.waited_granted, out.conv_raced, out.conflict_sections, out.owning_move,
         out.later_conflict, out.validate_raced, out.validated_ok, out.prep_fallback, out.two_waiting, out.group_successor, out.exact, out.nodes_total);
  printf("VERDICT %s phase=%d steps=%lu\n", vsched::reports().empty() ? "ok" : "REPORTS", g_phase, vsched::stats().steps);
  return vsched::reports().empty() ? 0 : 10;
}



/*------------------------------------------------------------------------------
 * bounded sweep: a fixed catalogue of tiny programs x ALL schedules with <= 2 step-level
 * preemptions (deterministic, seed independent; complete for that sub-space)
 *----------------------------------------------------------------------------*/
using lockcase::Op;
std::vector<Op>
mini(int cls, int which)
{
  using namespace lockcase;  // NOLINT
  auto mk = [](uint8_t code, int a = 0, int b = 0, int c = 0, uint32_t arg = 0) {
    Op o;
    o.code = code;
    o.a = static_cast<uint8_t>(a);
    o.b = static_cast<uint8_t>(b);
    o.c = static_cast<uint8_t>(c);
    o.arg = arg;
    return o;
  };
  switch (which) {
    case 0: return {mk(ACQ_S, 0, 0), mk(READ, kS, 0), mk(REL, kS, 0)};
    case 1: return {mk(ACQ_SIX, 0, 0), mk(READ, kI, 0), mk(REL, kI, 0)};
    case 2: return {mk(ACQ_X, 0, 0), mk(WRITE, 0), mk(REL, kX, 0)};
    case 3: return {mk(ACQ_SIX, 0, 0), mk(UPG, 0, 0), mk(WRITE, 0), mk(REL, kX, 0)};
    case 4: return {mk(ACQ_X, 0, 0), mk(WRITE, 0), mk(DWN, 0, 0), mk(READ, kI, 0), mk(REL, kI, 0)};
    case 5: return {mk(ACQ_X, 0, 0), mk(DWN, 0, 0), mk(UPG, 0, 1), mk(WRITE, 1), mk(DROP, kX, 1)};
    case 6: if (cls != kOpt) return {}; return {mk(GETVER, 0, 0), mk(OPTREAD, kO, 0), mk(VERIFY, 0)};
    case 7: if (cls != kOpt) return {}; return {mk(GETVER, 0, 0), mk(OPTREAD, kO, 0), mk(TRY_X, 0, 0), mk(WRITE, 0), mk(SETVER, 0, 0, 0, 77), mk(REL, kX, 0)};
    case 8: if (cls != kOpt) return {}; return {mk(GETVER, 0, 0), mk(TRY_S, 0, 0), mk(READ, kS, 0), mk(REL, kS, 0)};
    case 9: if (cls != kOpt) return {}; return {mk(PREP, 0, 0), mk(OPTREAD, kC, 0), mk(CVERIFY, 0), mk(REL, kC, 0)};
    case 10: if (cls != kOpt) return {}; return {mk(GETVER, 0, 0), mk(TRY_SIX, 0, 0), mk(UPG, 0, 0), mk(WRITE, 0), mk(REL, kX, 0)};
    default: return {};
  }
}
constexpr int kMini = 11;

int
sweep(const std::string &profile, const std::string &out, int shard, int nshards, bool three)
{
  g_outdir = out;
  mkdir(out.c_str(), 0777);
  vsched::Config cfg;
  int clsmask = 7;
  if (profile == "C03" || profile == "C09" || profile == "C13") clsmask = 2;
  if (profile == "C11" || profile == "C12") clsmask = 4;
  uint64_t progidx = 0, idx = 0;
  auto run_one = [&](Case &c) {
    g_curtext = lockcase::to_text(c);
    g_curindex = idx++;
    wk::write_file(out + "/cur.case", "# index " + std::to_string(g_curindex) + "\n" + g_curtext);
    vsched::clear_reports();
    Outcome oc;
    lockinterp::run_case(c, cfg, oc, &g_phase);
    C.evaluations++;
    C.steps = vsched::total_steps();
    if (oc.contended || oc.conv_raced || oc.validate_raced || oc.prep_seen_x || oc.prep_fallback) {
      C.nontrivial++;
      C.nontrivial_hashes.insert(wk::fnv(g_curtext));
      if (C.samples.size() < 3) C.samples.push_back(g_curtext);
    }
    std::set<std::string> kinds;
    for (auto &r : vsched::reports()) {
      C.report_kinds[r.kind]++;
      if (kinds.insert(r.kind).second && C.viols.size() < 64) {
        char fn[256];
        snprintf(fn, sizeof fn, "%s/viol-%lu-%s.case", out.c_str(), g_curindex, r.kind.c_str());
        wk::write_file(fn, g_curtext);
        C.viols.push_back({r.kind, r.msg, fn, g_curindex});
      }
    }
    return oc;
  };
  for (int ci = 0; ci < 3; ci++) {
    const int cls = (ci + shard) % 3;  // workers start with different lock classes: a sweep cut short by its budget covers all of them
    if (((clsmask >> cls) & 1) == 0) continue;
    const int nthr = three ? 3 : 2;
    const int total = three ? kMini * kMini * kMini : kMini * kMini;
    for (int code = 0; code < total; code++) {
      const int w[3] = {code % kMini, (code / kMini) % kMini, three ? code / (kMini * kMini) : -1};
      if (three && (w[0] > 5 || w[1] > 5 || w[2] > 5)) continue;
      bool ok = true;
      Case base;
      base.cls = cls;
      base.nlocks = 1;
      base.threads.resize(nthr);
      for (int t = 0; t < nthr; t++) {
        base.threads[t].ops = mini(cls, w[t]);
        if (base.threads[t].ops.empty()) ok = false;
      }
      if (!ok) continue;
      progidx = static_cast<uint64_t>(cls) * static_cast<uint64_t>(total) + static_cast<uint64_t>(code);
      if (static_cast<int>((progidx / 3 + progidx % 3) % static_cast<uint64_t>(nshards)) != shard) continue;
      C.labels["sweep_programs"]++;
      // base run without preemption gives the step counts
      const Outcome boc = run_one(base);
      uint32_t len[3] = {0, 0, 0};
      for (int t = 0; t < nthr; t++) len[t] = boc.lsteps[t] + 6;  // (a preempted run can be a few steps longer: retries)
      std::vector<vsched::Preempt> pts;
      for (int t = 0; t < nthr; t++) {
        for (uint32_t st = 0; st < len[t]; st++) {
          for (int tg = 0; tg < nthr - 1; tg++) pts.push_back({t, st, tg});
        }
      }
      for (size_t i = 0; i < pts.size(); i++) {
        Case c1 = base;
        c1.sched.preempts = {pts[i]};
        (void)run_one(c1);
        for (size_t j = i + 1; j < pts.size(); j++) {
          if (pts[j].thread == pts[i].thread && pts[j].lstep == pts[i].lstep) continue;
          Case c2 = base;
          c2.sched.preempts = {pts[i], pts[j]};
          (void)run_one(c2);
        }
      }
      flush_result();
    }
  }
  C.next_index = idx;
  C.done = true;
  flush_result();
  return 0;
}

/*------------------------------------------------------------------------------
 * focus sweep (--four): four threads; thread 0 runs one transaction with a conversion or an exclusive section,
 * the three others one plain S / SIX / X transaction each; ALL schedules in which thread 0 - and only thread 0 - is
 * switched out at most twice (each time in favour of a chosen other thread), once with the three others ready from the
 * beginning and once with the three others *parked* (they act only when thread 0 is switched out in their favour); in
 * the parked variant also three times when the last two switches are within three steps of each other. Covers windows
 * that need several intruders between adjacent instructions of one operation.
 *----------------------------------------------------------------------------*/
int
sweep_four(const std::string &profile, const std::string &out, int shard, int nshards)
{
  g_outdir = out;
  mkdir(out.c_str(), 0777);
  vsched::Config cfg;
  int clsmask = 7;
  if (profile == "C03" || profile == "C09" || profile == "C13") clsmask = 2;
  if (profile == "C11" || profile == "C12") clsmask = 4;
  uint64_t progidx = 0, idx = 0;
  auto run_one = [&](Case &c) {
    g_curtext = lockcase::to_text(c);
    g_curindex = idx++;
    wk::write_file(out + "/cur.case", "# index " + std::to_string(g_curindex) + "\n" + g_curtext);
    vsched::clear_reports();
    Outcome oc;
    lockinterp::run_case(c, cfg, oc, &g_phase);
    C.evaluations++;
    C.steps = vsched::total_steps();
    if (oc.contended || oc.conv_raced) {
      C.nontrivial++;
      C.nontrivial_hashes.insert(wk::fnv(g_curtext));
      if (C.samples.size() < 3) C.samples.push_back(g_curtext);
    }
    std::set<std::string> kinds;
    for (auto &r : vsched::reports()) {
      C.report_kinds[r.kind]++;
      if (kinds.insert(r.kind).second && C.viols.size() < 64) {
        char fn[256];
        snprintf(fn, sizeof fn, "%s/viol-%lu-%s.case", out.c_str(), g_curindex, r.kind.c_str());
        wk::write_file(fn, g_curtext);
        C.viols.push_back({r.kind, r.msg, fn, g_curindex});
      }
    }
    return oc;
  };
  static const int focus[] = {2, 3, 4};
  for (int ci = 0; ci < 3; ci++) {
    const int cls = (ci + shard) % 3;  // (see sweep())
    if (((clsmask >> cls) & 1) == 0) continue;
    for (int f = 0; f < 3; f++) {
      for (int code = 0; code < 27; code++) {
       for (int late = 0; late < 2; late++) {
        if (const char *only = getenv("VERIF_SWEEP4_ONLY")) {  // debugging aid: "f,code,late"
          int of = 0, oc = 0, ol = 0;
          if (sscanf(only, "%d,%d,%d", &of, &oc, &ol) == 3 && (of != f || oc != code || ol != late)) continue;
        }
        progidx = static_cast<uint64_t>(((cls * 3 + f) * 27 + code) * 2 + late);
        if (static_cast<int>((progidx / 2 + progidx % 2 * 7) % static_cast<uint64_t>(nshards)) != shard) continue;
        Case base;
        base.cls = cls;
        base.nlocks = 1;
        base.threads.resize(4);
        base.threads[0].ops = mini(cls, focus[f]);
        base.threads[1].ops = mini(cls, code % 3);
        base.threads[2].ops = mini(cls, (code / 3) % 3);
        base.threads[3].ops = mini(cls, code / 9);
        if (late != 0) {
          // late arrivals: the three others are parked before their request, so each of them acts only when thread 0 is
          // switched out in its favour (or nobody else can run): thread 0 plus at most three chosen intrusions
          for (int t = 1; t < 4; t++) base.threads[t].sk = vsched::kParked;
        }
        C.labels["sweep_programs"]++;
        const Outcome boc = run_one(base);
        const uint32_t len = boc.lsteps[0] + 3;
        for (uint32_t a = 0; a < len; a++) {
          for (int ta = 1; ta <= 3; ta++) {
            Case c1 = base;
            c1.sched.preempts = {{0, a, ta - 1}};
            run_one(c1);
            for (uint32_t b = a + 1; b < len; b++) {
              for (int tb = 1; tb <= 3; tb++) {
                Case c2 = base;
                c2.sched.preempts = {{0, a, ta - 1}, {0, b, tb - 1}};
                run_one(c2);
                // a third switch only in the parked variant, within three steps of the second one and in favour of
                // another thread: two intruders between (nearly) adjacent instructions of one operation
                for (uint32_t d = b + 1; late != 0 && d < len && d <= b + 3; d++) {
                  for (int td = 1; td <= 3; td++) {
                    if (td == tb) continue;
                    Case c3 = base;
                    c3.sched.preempts = {{0, a, ta - 1}, {0, b, tb - 1}, {0, d, td - 1}};
                    run_one(c3);
                  }
                }
              }
            }
          }
        }
        flush_result();
       }
      }
    }
  }
  C.next_index = idx;
  C.done = true;
  flush_result();
  return 0;
}

}  // namespace

int
main(int argc, char **argv)
{
  std::string mode, file, profile = "C01", out;
  int shard = 0, nshards = 1;
  bool three = false, four = false;
  uint64_t seed = 1, start = 0, count = 100;
  bool trace = false;
  for (int i = 1; i < argc; i++) {
    std::string a = argv[i];
    auto next = [&]() -> std::string { return i + 1 < argc ? argv[++i] : ""; };
    if (a == "--replay") {
      mode = "replay";
      file = next();
    } else if (a == "--gen") {
      mode = "gen";
    } else if (a == "--dump") {
      mode = "dump";
    } else if (a == "--profile") {
      profile = next();
    } else if (a == "--seed") {
      seed = strtoull(next().c_str(), nullptr, 10);
    } else if (a == "--start") {
      start = strtoull(next().c_str(), nullptr, 10);
    } else if (a == "--count") {
      count = strtoull(next().c_str(), nullptr, 10);
    } else if (a == "--out") {
      out = next();
    } else if (a == "--trace") {
      trace = true;
    } else if (a == "--sweep") {
      mode = "sweep";
    } else if (a == "--three") {
      three = true;
    } else if (a == "--four") {
      four = true;
    } else if (a == "--shard") {
      const std::string v = next();
      sscanf(v.c_str(), "%d/%d", &shard, &nshards);
    }
  }
  vsched::set_fatal_handler(on_fatal);
  if (mode == "replay") return replay(file, trace);
  if (mode == "sweep" && four) return sweep_four(profile, out, shard, nshards < 1 ? 1 : nshards);
  if (mode == "sweep") return sweep(profile, out, shard, nshards < 1 ? 1 : nshards, three);
  if (mode == "dump") {
    for (uint64_t i = start; i < start + count; i++) {
      Case c = lockgen::generate(profile, seed, i);
      printf("# index %lu\n%s\n", i, lockcase::to_text(c).c_str());
    }
    return 0;
  }
  if (mode != "gen" || out.empty()) {
    fprintf(stderr, "usage: lock_harness --replay FILE [--trace] | --gen --profile P --seed S --start I --count N --out DIR\n");
    return 2;
  }
  g_outdir = out;
  mkdir(out.c_str(), 0777);
  vsched::Config cfg;
  for (uint64_t i = start; i < start + count; i++) {
    Case c = lockgen::generate(profile, seed, i);
    g_curtext = lockcase::to_text(c);
    g_curindex = i;
    wk::write_file(out + "/cur.case", "# index " + std::to_string(i) + "\n" + g_curtext);
    vsched::clear_reports();
    Outcome oc;
    lockinterp::run_case(c, cfg, oc, &g_phase);
    C.evaluations++;
    C.next_index = i + 1;
    C.steps = vsched::total_steps();
    C.skipped_ops += oc.skipped;
    C.excluded_known += oc.excluded_known;
    C.executed_ops += oc.executed;
    std::vector<std::string> labels;
    const bool nt = lockgen::classify(profile, c, oc, labels);
    for (auto &l : labels) C.labels[l]++;
    if (nt) {
      C.nontrivial++;
      C.nontrivial_hashes.insert(wk::fnv(g_curtext));
      if (C.samples.size() < 3) C.samples.push_back(g_curtext);
    }
    if (!vsched::reports().empty()) {
      std::set<std::string> kinds;
      for (auto &r : vsched::reports()) {
        C.report_kinds[r.kind]++;
        if (kinds.insert(r.kind).second && C.viols.size() < 64) {
          char fn[256];
          snprintf(fn, sizeof fn, "%s/viol-%lu-%s.case", out.c_str(), i, r.kind.c_str());
          wk::write_file(fn, g_curtext);
          C.viols.push_back({r.kind, r.msg, fn, i});
        }
      }
    }
    if ((i & 1023) == 1023) flush_result();
  }
  C.done = true;
  flush_result();
  return 0;
}
