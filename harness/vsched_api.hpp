// vsched — controlled scheduler, instrumented atomics, happens-before engine.
// This header is seen by every translation unit (with or without the prelude
// macros); it must not mention the identifiers the prelude renames
// (atomic, hash, sleep_for, ...) after the prelude's #defines, so it is always
// included *before* them and uses only builtins for its own shared state.
#pragma once
#include <cstddef>
#include <cstdint>
#include <functional>
#include <string>
#include <vector>

namespace vsched
{
constexpr int kMaxT = 12;

enum Kind : uint8_t { kLoad, kStore, kRmw, kCasFail, kFence, kPlainR, kPlainW, kHint, kHarness };

// memory-order classes, decoded by the shim from std::memory_order
struct MO {
  bool acq;
  bool rel;
};

/*------------------------------------------------------------------------------
 * API used by the instrumented operations (prelude) and the interpreters
 *----------------------------------------------------------------------------*/
bool active();                                  // calling thread is a scheduled virtual thread
int self();                                     // virtual thread index (-1 outside)
void pre_op(Kind k, const void *addr);          // scheduling point before an operation
void post_write(const void *addr, bool changed, uint64_t newval);  // after a write (mutation note + scheduling point)
void note_read(const void *addr);               // stutter detection for reads / non-mutating RMWs
bool spurious_cas_failure();                    // schedule says: this weak CAS fails spuriously
void yield_hint();                              // "no progress" marker (sleep_for / _mm_pause)
size_t thread_probe();                          // value substituted for hash(thread::id)

void hb_load(const void *loc, MO m);            // acquire side
void hb_store(const void *loc, MO m);           // plain store: starts a new release sequence
void hb_rmw(const void *loc, MO m);             // RMW: continues the release sequence
void hb_fence(MO m);

// non-atomic payload word with FastTrack-style race detection
struct plain {
  uint64_t v = 0;
  int wt = -1;
  uint32_t wc = 0;
  uint32_t r[kMaxT] = {};
  uint64_t read(bool speculative = false);
  void write(uint64_t x);
  void reset() { *this = plain{}; }
};

void report(const char *kind, const std::string &msg);  // record an oracle hit (non fatal)

// harness observation scope: no scheduling decisions inside. If the thread
// yields inside (it is waiting), the scope is broken: returns false at leave.
void nopreempt_enter();
bool nopreempt_leave();
void harness_point();  // explicit scheduling point in interpreter code (does not count as a waiting step)
void harness_yield();  // interpreter-level yield: let every other runnable thread go first (not a waiting step)
void preempt_now(int target);  // forced switch (op-level preemption), no-op if nobody else can run

// write-watch: the interpreter registers [lo,hi) ranges; when the current
// thread performs a value-changing write inside a watched range, cb(tag) fires
// (inside the atomic operation, i.e. exactly ordered with other writes).
using WatchCb = void (*)(int tag);
void watch_set(int slot, const void *lo, const void *hi, int tag, WatchCb cb);  // per-thread slots 0..3
void watch_clear(int slot);
// foreign-access watch: while set, any instrumented access to [lo,hi) by a thread other than `owner` is reported as `kind`
void region_set(int owner, const void *lo, const void *hi, const char *kind, const char *what);
void region_clear(int owner);
void park();  // the calling thread waits until a preemption names it as its target or no other thread can make progress
void region_include_owner(int owner, bool on);  // the owner's own accesses to its region are reported too (while on)

/*------------------------------------------------------------------------------
 * Run control (used by interpreters/drivers)
 *----------------------------------------------------------------------------*/
enum StartKind : uint8_t { kBegin = 0, kAfterBody = 1, kAfterExit = 2, kParked = 3 };  // kParked: ready from the beginning, but parked (see park())

struct ThreadSpec {
  std::function<void()> body;
  StartKind sk = kBegin;
  int dep = -1;
  size_t probe = 0;
};

struct Preempt {
  int thread;
  uint32_t lstep;
  int target;
};

struct CasFail {
  int thread;
  uint32_t nth;
};

struct Schedule {
  std::vector<Preempt> preempts;
  std::vector<CasFail> casfails;
};

struct Config {
  uint64_t K = 128;             // idle bound for STUCK
  uint64_t maxsteps = 200000;   // step bound -> inconclusive
  bool trace = false;
};

struct Report {
  std::string kind;
  std::string msg;
  int thread;
  uint64_t step;
};

enum Verdict { kOk = 0, kStuck = 3, kStepBound = 5 };

struct RunStats {
  uint64_t steps = 0;
  uint64_t switches = 0;
  uint64_t preempts_taken = 0;
  uint64_t casfails_taken = 0;
  uint64_t yields = 0;
  uint32_t lsteps[kMaxT] = {};
};

// fatal handler: called on the thread that detects STUCK / STEPBOUND; must not return.
using FatalFn = void (*)(Verdict v);
void set_fatal_handler(FatalFn f);

// executes the threads under the schedule; returns when all have exited.
void run(std::vector<ThreadSpec> &threads, const Schedule &s, const Config &c);
std::vector<Report> &reports();      // accumulated over runs until cleared
void clear_reports();
const RunStats &stats();
uint64_t now_step();
uint64_t total_steps();  // scheduling steps executed by all runs of this process so far
void on_body_done(void (*cb)(int thread));   // hook: called when a thread's body returned
void on_thread_exit(void (*cb)(int thread)); // hook: called from the sentinel destructor
void on_report(void (*cb)(const Report &r)); // hook: called for every oracle hit as it is recorded
void on_step(void (*cb)(int thread));        // hook: called at every scheduling point of the running thread

/*------------------------------------------------------------------------------
 * Heap log (global operator new/delete are replaced in vsched_rt.cpp)
 *----------------------------------------------------------------------------*/
struct HeapClass {
  size_t size = 0;       // exact size to track (0 = any)
  size_t align = 0;      // 0 = default-aligned new only; else aligned new with this alignment
};
void heap_track(const HeapClass &c);   // start tracking a class (resets counters)
void heap_untrack();
void heap_lib_scope(bool in);          // per-thread: inside a library call
struct HeapStats {
  long live = 0;
  long total = 0;
  long max_live = 0;
  long frees = 0;
};
HeapStats heap_stats();
bool heap_is_live(const void *p);

}  // namespace vsched
