// Force-included (-include) in front of every repository source and every
// interpreter TU. It spends the include guards of the standard headers the
// library (or a plausible edit of it) uses and then renames the atomic
// spellings so that every atomic access of the *unmodified* sources becomes a
// scheduling point of vsched. Nothing under /repo is edited.
#pragma once
#include <algorithm>
#include <array>
#include <atomic>
#include <bit>
#include <bitset>
#include <cassert>
#include <chrono>
#include <cmath>
#include <condition_variable>
#include <cstddef>
#include <cstdint>
#include <cstdio>
#include <cstdlib>
#include <cstring>
#include <functional>
#include <future>
#include <iostream>
#include <limits>
#include <map>
#include <memory>
#include <mutex>
#include <optional>
#include <random>
#include <set>
#include <shared_mutex>
#include <sstream>
#include <stdexcept>
#include <string>
#include <thread>
#include <tuple>
#include <type_traits>
#include <unordered_map>
#include <unordered_set>
#include <utility>
#include <variant>
#include <vector>
#include <x86intrin.h>
#include <any>
#include <barrier>
#include <charconv>
#include <cinttypes>
#include <climits>
#include <compare>
#include <concepts>
#include <ctime>
#include <deque>
#include <exception>
#include <fstream>
#include <initializer_list>
#include <iomanip>
#include <iterator>
#include <latch>
#include <list>
#include <new>
#include <numbers>
#include <numeric>
#include <queue>
#include <ratio>
#include <semaphore>
#include <span>
#include <stack>
#include <stop_token>
#include <string_view>
#include <typeinfo>
#include <version>

#include "vsched_api.hpp"

namespace vsched
{
inline MO
mo_of(std::memory_order m)
{
  return MO{m == std::memory_order_acquire || m == std::memory_order_acq_rel
                || m == std::memory_order_seq_cst || m == std::memory_order_consume,
            m == std::memory_order_release || m == std::memory_order_acq_rel
                || m == std::memory_order_seq_cst};
}

template <class T>
inline uint64_t
as_u64(const T &v)
{
  uint64_t r = 0;
  std::memcpy(&r, &v, sizeof(T) < 8 ? sizeof(T) : 8);
  return r;
}

template <class T>
class atomic
{
  T v_;

 public:
  using value_type = T;
  static constexpr bool is_always_lock_free = true;

  constexpr atomic() noexcept : v_{} {}
  constexpr atomic(T v) noexcept : v_{v} {}  // NOLINT
  atomic(const atomic &) = delete;
  auto operator=(const atomic &) -> atomic & = delete;

  bool is_lock_free() const noexcept { return true; }

  T
  load(std::memory_order m = std::memory_order_seq_cst) const noexcept
  {
    if (!active()) return v_;
    pre_op(kLoad, this);
    hb_load(this, mo_of(m));
    note_read(this);
    return v_;
  }

  void
  store(T v, std::memory_order m = std::memory_order_seq_cst) noexcept
  {
    if (!active()) {
      v_ = v;
      return;
    }
    pre_op(kStore, this);
    hb_store(this, mo_of(m));
    const bool ch = !(v_ == v);
    v_ = v;
    post_write(this, ch, as_u64(v));
  }

  T
  exchange(T v, std::memory_order m = std::memory_order_seq_cst) noexcept
  {
    if (!active()) {
      T o = v_;
      v_ = v;
      return o;
    }
    pre_op(kRmw, this);
    hb_load(this, mo_of(m));
    hb_rmw(this, mo_of(m));
    T o = v_;
    const bool ch = !(o == v);
    v_ = v;
    if (!ch) note_read(this);
    post_write(this, ch, as_u64(v));
    return o;
  }

  bool
  cas(T &e, T d, std::memory_order s, std::memory_order f, bool weak) noexcept
  {
    if (!active()) {
      if (v_ == e) {
        v_ = d;
        return true;
      }
      e = v_;
      return false;
    }
    pre_op(kRmw, this);
    if (v_ == e) {
      if (weak && spurious_cas_failure()) {
        hb_load(this, mo_of(f));
        return false;
      }
      hb_load(this, mo_of(s));
      hb_rmw(this, mo_of(s));
      const bool ch = !(v_ == d);
      v_ = d;
      if (!ch) note_read(this);
      post_write(this, ch, as_u64(d));
      return true;
    }
    hb_load(this, mo_of(f));
    note_read(this);
    e = v_;
    return false;
  }

  static constexpr std::memory_order
  fail_order(std::memory_order m)
  {
    return m == std::memory_order_acq_rel   ? std::memory_order_acquire
           : m == std::memory_order_release ? std::memory_order_relaxed
                                            : m;
  }

  bool compare_exchange_weak(T &e, T d, std::memory_order s, std::memory_order f) noexcept { return cas(e, d, s, f, true); }
  bool compare_exchange_strong(T &e, T d, std::memory_order s, std::memory_order f) noexcept { return cas(e, d, s, f, false); }
  bool compare_exchange_weak(T &e, T d, std::memory_order m = std::memory_order_seq_cst) noexcept { return cas(e, d, m, fail_order(m), true); }
  bool compare_exchange_strong(T &e, T d, std::memory_order m = std::memory_order_seq_cst) noexcept { return cas(e, d, m, fail_order(m), false); }

  template <class F>
  T
  rmw(F fn, std::memory_order m) noexcept
  {
    if (!active()) {
      T o = v_;
      v_ = fn(o);
      return o;
    }
    pre_op(kRmw, this);
    hb_load(this, mo_of(m));
    hb_rmw(this, mo_of(m));
    T o = v_;
    T n = fn(o);
    const bool ch = !(o == n);
    v_ = n;
    if (!ch) note_read(this);
    post_write(this, ch, as_u64(n));
    return o;
  }

  template <class D> T fetch_add(D d, std::memory_order m = std::memory_order_seq_cst) noexcept { return rmw([d](T o) { return static_cast<T>(o + d); }, m); }
  template <class D> T fetch_sub(D d, std::memory_order m = std::memory_order_seq_cst) noexcept { return rmw([d](T o) { return static_cast<T>(o - d); }, m); }
  T fetch_xor(T d, std::memory_order m = std::memory_order_seq_cst) noexcept { return rmw([d](T o) { return static_cast<T>(o ^ d); }, m); }
  T fetch_or(T d, std::memory_order m = std::memory_order_seq_cst) noexcept { return rmw([d](T o) { return static_cast<T>(o | d); }, m); }
  T fetch_and(T d, std::memory_order m = std::memory_order_seq_cst) noexcept { return rmw([d](T o) { return static_cast<T>(o & d); }, m); }

  operator T() const noexcept { return load(); }  // NOLINT
  T operator=(T v) noexcept { store(v); return v; }  // NOLINT
  T operator++() noexcept { return static_cast<T>(fetch_add(1) + 1); }
  T operator++(int) noexcept { return fetch_add(1); }
  T operator--() noexcept { return static_cast<T>(fetch_sub(1) - 1); }
  T operator--(int) noexcept { return fetch_sub(1); }
  template <class D> T operator+=(D d) noexcept { return static_cast<T>(fetch_add(d) + d); }
  template <class D> T operator-=(D d) noexcept { return static_cast<T>(fetch_sub(d) - d); }
  T operator|=(T d) noexcept { return static_cast<T>(fetch_or(d) | d); }
  T operator&=(T d) noexcept { return static_cast<T>(fetch_and(d) & d); }
  T operator^=(T d) noexcept { return static_cast<T>(fetch_xor(d) ^ d); }

  // C++20 waiting: modelled as a yielding spin (spurious wake-ups are allowed by the standard)
  void
  wait(T old, std::memory_order m = std::memory_order_seq_cst) const noexcept
  {
    while (load(m) == old) yield_hint();
  }
  void notify_one() noexcept { pre_op(kHarness, this); }
  void notify_all() noexcept { pre_op(kHarness, this); }

  // harness-only: raw value without a scheduling point
  T vs_raw() const noexcept { return v_; }
};

// std::atomic_ref<T>: same operations on an object that lives elsewhere (layout of atomic<T> is a single T)
template <class T>
class atomic_ref
{
  atomic<T> *a_;

 public:
  using value_type = T;
  static constexpr bool is_always_lock_free = true;
  static constexpr size_t required_alignment = alignof(T);
  explicit atomic_ref(T &obj) noexcept : a_{reinterpret_cast<atomic<T> *>(&obj)} {}
  atomic_ref(const atomic_ref &) noexcept = default;
  bool is_lock_free() const noexcept { return true; }
  T load(std::memory_order m = std::memory_order_seq_cst) const noexcept { return a_->load(m); }
  void store(T v, std::memory_order m = std::memory_order_seq_cst) const noexcept { a_->store(v, m); }
  T exchange(T v, std::memory_order m = std::memory_order_seq_cst) const noexcept { return a_->exchange(v, m); }
  bool compare_exchange_weak(T &e, T d, std::memory_order s, std::memory_order f) const noexcept { return a_->compare_exchange_weak(e, d, s, f); }
  bool compare_exchange_strong(T &e, T d, std::memory_order s, std::memory_order f) const noexcept { return a_->compare_exchange_strong(e, d, s, f); }
  bool compare_exchange_weak(T &e, T d, std::memory_order m = std::memory_order_seq_cst) const noexcept { return a_->compare_exchange_weak(e, d, m); }
  bool compare_exchange_strong(T &e, T d, std::memory_order m = std::memory_order_seq_cst) const noexcept { return a_->compare_exchange_strong(e, d, m); }
  template <class D> T fetch_add(D d, std::memory_order m = std::memory_order_seq_cst) const noexcept { return a_->fetch_add(d, m); }
  template <class D> T fetch_sub(D d, std::memory_order m = std::memory_order_seq_cst) const noexcept { return a_->fetch_sub(d, m); }
  T fetch_or(T d, std::memory_order m = std::memory_order_seq_cst) const noexcept { return a_->fetch_or(d, m); }
  T fetch_and(T d, std::memory_order m = std::memory_order_seq_cst) const noexcept { return a_->fetch_and(d, m); }
  T fetch_xor(T d, std::memory_order m = std::memory_order_seq_cst) const noexcept { return a_->fetch_xor(d, m); }
  operator T() const noexcept { return load(); }  // NOLINT
  T operator=(T v) const noexcept { store(v); return v; }  // NOLINT
  void wait(T old, std::memory_order m = std::memory_order_seq_cst) const noexcept { a_->wait(old, m); }
  void notify_one() const noexcept { a_->notify_one(); }
  void notify_all() const noexcept { a_->notify_all(); }
};

// std::atomic_flag
class atomic_flag
{
  atomic<bool> f_{false};

 public:
  constexpr atomic_flag() noexcept = default;
  atomic_flag(const atomic_flag &) = delete;
  bool test_and_set(std::memory_order m = std::memory_order_seq_cst) noexcept { return f_.exchange(true, m); }
  void clear(std::memory_order m = std::memory_order_seq_cst) noexcept { f_.store(false, m); }
  bool test(std::memory_order m = std::memory_order_seq_cst) const noexcept { return f_.load(m); }
  void wait(bool old, std::memory_order m = std::memory_order_seq_cst) const noexcept { f_.wait(old, m); }
  void notify_one() noexcept { f_.notify_one(); }
  void notify_all() noexcept { f_.notify_all(); }
};

// std::mutex: a scheduler-aware test-and-set lock (a thread blocking in the real one would stall the baton)
class mutex
{
  atomic<bool> held_{false};

 public:
  constexpr mutex() noexcept = default;
  mutex(const mutex &) = delete;
  void
  lock()
  {
    while (held_.exchange(true, std::memory_order_acquire)) yield_hint();
  }
  bool try_lock() { return !held_.exchange(true, std::memory_order_acquire); }
  void unlock() { held_.store(false, std::memory_order_release); }
};

inline void
fence(std::memory_order m) noexcept
{
  if (!active()) return;
  pre_op(kFence, nullptr);
  hb_fence(mo_of(m));
}

struct tid_hash {
  size_t operator()(std::thread::id) const noexcept { return thread_probe(); }
};
template <class T>
struct hash_sel {
  using type = std::hash<T>;
};
template <>
struct hash_sel<std::thread::id> {
  using type = tid_hash;
};
}  // namespace vsched

namespace std
{
template <class T>
using vs_atomic = ::vsched::atomic<T>;
template <class T>
using vs_atomic_ref = ::vsched::atomic_ref<T>;
using vs_atomic_flag = ::vsched::atomic_flag;
using vs_mutex = ::vsched::mutex;
using vs_atomic_bool = ::vsched::atomic<bool>;
using vs_atomic_char = ::vsched::atomic<char>;
using vs_atomic_int = ::vsched::atomic<int>;
using vs_atomic_uint = ::vsched::atomic<unsigned>;
using vs_atomic_long = ::vsched::atomic<long>;
using vs_atomic_ulong = ::vsched::atomic<unsigned long>;
using vs_atomic_size_t = ::vsched::atomic<size_t>;
using vs_atomic_uint8_t = ::vsched::atomic<uint8_t>;
using vs_atomic_uint16_t = ::vsched::atomic<uint16_t>;
using vs_atomic_uint32_t = ::vsched::atomic<uint32_t>;
using vs_atomic_uint64_t = ::vsched::atomic<uint64_t>;
using vs_atomic_int32_t = ::vsched::atomic<int32_t>;
using vs_atomic_int64_t = ::vsched::atomic<int64_t>;
using vs_atomic_uintptr_t = ::vsched::atomic<uintptr_t>;
inline void
vs_atomic_thread_fence(memory_order mo) noexcept
{
  ::vsched::fence(mo);
}
#ifdef VSCHED_SHIM_SMART_PTR
// Reference-count operations of shared_ptr / weak_ptr are hidden synchronisation (atomic RMWs inside libstdc++ that the
// rename of the std::atomic spellings does not reach). In the variants built with this define, the operations that read
// or change a use count are scheduling points too: weak_ptr::lock / expired, shared_ptr reset / assignment / destruction
// of an owning pointer. (`raw_expired` is the interpreter's point-free observation.)
template <class T>
class vs_shared_ptr : public shared_ptr<T>
{
  using B = shared_ptr<T>;
  void
  rmw_point() const noexcept
  {
    if (this->get() != nullptr && ::vsched::active()) {
      ::vsched::pre_op(::vsched::kRmw, this->get());
    }
  }

 public:
  using B::B;
  vs_shared_ptr() noexcept = default;
  vs_shared_ptr(const B &b) noexcept : B(b) {}       // NOLINT
  vs_shared_ptr(B &&b) noexcept : B(std::move(b)) {}  // NOLINT
  vs_shared_ptr(const vs_shared_ptr &o) noexcept : B(static_cast<const B &>(o)) {}
  vs_shared_ptr(vs_shared_ptr &&o) noexcept : B(static_cast<B &&>(o)) {}
  vs_shared_ptr &
  operator=(const vs_shared_ptr &o) noexcept
  {
    rmw_point();
    B::operator=(static_cast<const B &>(o));
    return *this;
  }
  vs_shared_ptr &
  operator=(vs_shared_ptr &&o) noexcept
  {
    rmw_point();
    B::operator=(static_cast<B &&>(o));
    return *this;
  }
  ~vs_shared_ptr()
  {
    const void *p = this->get();
    if (p != nullptr && ::vsched::active()) {
      ::vsched::pre_op(::vsched::kRmw, p);
      B::reset();
      ::vsched::post_write(p, true, 0);
    }
  }
  void
  reset() noexcept
  {
    const void *p = this->get();
    if (p != nullptr && ::vsched::active()) {
      ::vsched::pre_op(::vsched::kRmw, p);
      B::reset();
      ::vsched::post_write(p, true, 0);
    } else {
      B::reset();
    }
  }
};

template <class T>
class vs_weak_ptr : public weak_ptr<T>
{
  using B = weak_ptr<T>;

 public:
  using B::B;
  vs_weak_ptr() noexcept = default;
  vs_weak_ptr(const B &b) noexcept : B(b) {}                                                   // NOLINT
  vs_weak_ptr(const vs_shared_ptr<T> &s) noexcept : B(static_cast<const shared_ptr<T> &>(s)) {}  // NOLINT
  vs_weak_ptr(const vs_weak_ptr &) noexcept = default;
  vs_weak_ptr(vs_weak_ptr &&) noexcept = default;
  vs_weak_ptr &operator=(const vs_weak_ptr &) noexcept = default;
  vs_weak_ptr &operator=(vs_weak_ptr &&) noexcept = default;
  vs_shared_ptr<T>
  lock() const noexcept
  {
    if (::vsched::active()) ::vsched::pre_op(::vsched::kRmw, this);
    return vs_shared_ptr<T>{B::lock()};
  }
  bool
  expired() const noexcept
  {
    if (::vsched::active()) {
      ::vsched::pre_op(::vsched::kLoad, this);
      ::vsched::note_read(this);
    }
    return B::expired();
  }
  bool raw_expired() const noexcept { return B::expired(); }
};

template <class T, class... A>
inline vs_shared_ptr<T>
vs_make_shared(A &&...a)
{
  return vs_shared_ptr<T>{make_shared<T>(std::forward<A>(a)...)};
}
#endif

template <class T>
using vs_hash = typename ::vsched::hash_sel<T>::type;
namespace this_thread
{
template <class R, class P>
inline void
vs_sleep_for(const chrono::duration<R, P> &)
{
  ::vsched::yield_hint();
}
template <class C, class D>
inline void
vs_sleep_until(const chrono::time_point<C, D> &)
{
  ::vsched::yield_hint();
}
inline void
vs_yield() noexcept
{
  ::vsched::yield_hint();
}
}  // namespace this_thread
}  // namespace std

#define atomic vs_atomic
#define atomic_ref vs_atomic_ref
#define atomic_flag vs_atomic_flag
#define mutex vs_mutex
#define atomic_bool vs_atomic_bool
#define atomic_char vs_atomic_char
#define atomic_int vs_atomic_int
#define atomic_uint vs_atomic_uint
#define atomic_long vs_atomic_long
#define atomic_ulong vs_atomic_ulong
#define atomic_size_t vs_atomic_size_t
#define atomic_uint8_t vs_atomic_uint8_t
#define atomic_uint16_t vs_atomic_uint16_t
#define atomic_uint32_t vs_atomic_uint32_t
#define atomic_uint64_t vs_atomic_uint64_t
#define atomic_int32_t vs_atomic_int32_t
#define atomic_int64_t vs_atomic_int64_t
#define atomic_uintptr_t vs_atomic_uintptr_t
#define atomic_thread_fence vs_atomic_thread_fence
#define sleep_for vs_sleep_for
#define sleep_until vs_sleep_until
#define yield vs_yield
#define hash vs_hash
#ifdef VSCHED_SHIM_SMART_PTR
#define shared_ptr vs_shared_ptr
#define weak_ptr vs_weak_ptr
#define make_shared vs_make_shared
#endif
#define _mm_pause() ::vsched::yield_hint()
#define __builtin_ia32_pause() ::vsched::yield_hint()
