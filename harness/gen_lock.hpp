#pragma once
#include <string>
#include <vector>

#include "lockcase.hpp"

namespace lockgen
{
// case #index of the campaign identified by (profile, seed): a pure function of its arguments
lockcase::Case generate(const std::string &profile, uint64_t seed, uint64_t index);

// property-specific non-triviality rule + labels for the distribution report
bool classify(const std::string &profile, const lockcase::Case &c, const lockcase::Outcome &o, std::vector<std::string> &labels);

// human-readable statement of the rule (goes into the evidence file)
std::string rule_text(const std::string &profile);
}  // namespace lockgen
