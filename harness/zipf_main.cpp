// Zipf family worker (C06 C18 C19): pure, in-process, rapidcheck generators with
// native (Shrinkable) shrinking. No prelude; links the repository's zipf.cpp.
//   zipf_harness --replay FILE
//   zipf_harness --gen --profile C06|C18|C19 --seed S --start I --count N --out DIR [--big]
#include <rapidcheck.h>

#include "zipf_checks.hpp"

namespace
{
/*------------------------------------------------------------------------------ generators */
int pick(int lo, int hi) { return hi <= lo ? lo : *rc::gen::inRange(lo, hi + 1); }
uint64_t pick64(uint64_t lo, uint64_t hi) { return hi <= lo ? lo : *rc::gen::inRange<uint64_t>(lo, hi + 1); }
bool chance(int p) { return pick(0, 99) < p; }

double
gen_alpha(bool c18_domain)
{
  switch (pick(0, c18_domain ? 6 : 8)) {
    case 0: return 0.0;
    case 1: return 1.0;
    case 2: return pick(0, 300) / 100.0;                       // 0.01 grid on [0,3]
    case 3: return 1.0 + std::ldexp(1.0, -pick(1, 52));        // 1 + 2^-k
    case 4: return 1.0 - std::ldexp(1.0, -pick(1, 53));        // 1 - 2^-k
    case 5: return pick(0, 3000) / 1000.0;
    case 6: return pick(50, 150) / 100.0;
    case 7: return static_cast<double>(pick(5, 1000));          // large skews (terms underflow)
    default: return pick(300, 5000) / 100.0;
  }
}

uint64_t
gen_n(const std::string &prop, int cls, bool big)
{
  const uint64_t cap = cls == 0 ? (big ? 200000ULL : 20000ULL) : (big ? 5000000ULL : (prop == "C18" ? 60000ULL : 2000000ULL));
  uint64_t n = 1;
  switch (pick(0, 9)) {
    case 0: { static const uint64_t s[] = {1, 2, 3, 4, 5, 10, 50, 98, 99, 100, 101, 102, 103, 150, 199, 200, 201, 999, 1000, 1001, 1099, 1100, 1101, 10000}; n = s[pick(0, 23)]; break; }
    case 1: n = pick64(1, 110); break;
    case 2: n = pick64(90, 320); break;
    case 3: n = 100 + 100 * pick64(1, 50) + static_cast<uint64_t>(pick(0, 2) == 0 ? 0 : pick(0, 1) ? 1 : 99); break;
    case 4: n = pick64(1000, 3000); break;
    case 5: n = pick64(1, 1000); break;
    case 6: { uint64_t p10 = 1; const int e = pick(0, 6); for (int i = 0; i < e; i++) p10 *= 10; n = p10 + static_cast<uint64_t>(pick(0, 2)) - (p10 > 1 ? 1 : 0); break; }
    case 7: n = pick64(1000, cap); break;
    case 8: n = pick64(100, 20000); break;
    default: n = pick64(1, cap); break;
  }
  if (n < 1) n = 1;
  if (n > cap) n = cap;
  if (prop == "C18" && cls == 1 && chance(50) && n < 1000) n += 1000;
  return n;
}

template <class T>
void
gen_min(ZCase &c)
{
  // admissible: min + n - 1 and n + 1 representable in T
  const long double hi = Lim<T>::hi, lo = Lim<T>::lo;
  const long double room = hi - static_cast<long double>(c.n) - 1;  // largest admissible min
  long double m = 0;
  switch (pick(0, 6)) {
    case 6:  // the range straddles the sign boundary of the same-width signed type (or zero for signed types)
      m = (std::is_signed_v<T> ? 0.0L : (hi + 1) / 2) - static_cast<long double>(pick64(0, c.n));
      break;
    case 0: m = 0; break;
    case 1: m = 1; break;
    case 2: m = std::is_signed_v<T> ? -static_cast<long double>(pick64(0, 1000)) : static_cast<long double>(pick64(0, 1000)); break;
    case 3: m = room - static_cast<long double>(pick64(0, 1000)); break;   // near the upper limit
    case 4: m = lo + static_cast<long double>(pick64(0, 1000)); break;     // near the lower limit
    default: m = std::is_signed_v<T> ? -static_cast<long double>(c.n / 2) : static_cast<long double>(pick64(0, 1000000)); break;
  }
  if (m > room) m = room;
  if (m < lo) m = lo;
  if (std::is_signed_v<T>) {
    // max - min + 1 must not overflow the signed type either: n <= hi is guaranteed by the caps
    c.min_s = static_cast<int64_t>(m);
  } else {
    c.min_u = static_cast<uint64_t>(m);
  }
}

bool g_force_threads = false;

ZCase
gen_case(const std::string &prop, bool big)
{
  ZCase c;
  c.prop = prop;
  c.cls = pick(0, 1);
  c.type = pick(0, 3);
  c.n = gen_n(prop, c.cls, big);
  if (prop == "C06" && c.cls == 1 && pick(0, big ? 7999 : 14999) == 0) {
    // bin counts next to the limits of the 32-bit types (for the 64-bit types: around 2^30 .. 2^32). Rare, because the
    // approximate class's constructor is O(n / 100): one such case costs seconds.
    const uint64_t top = c.type == 2 ? 0x7FFFFFFDULL : 0xFFFFFFFDULL;
    switch (pick(0, 3)) {
      case 0: c.n = top - pick64(0, 1000); break;
      case 1: c.n = (1ULL << 30) - 500 + pick64(0, 1000); break;
      case 2: c.n = std::min<uint64_t>(top, (1ULL << 31) - 500 + pick64(0, 1000)); break;
      default: c.n = pick64(1ULL << 28, top); break;
    }
  }
  // C19: now and then a large exact table (> 2^16 bins), shared between threads before anybody sampled it
  const bool large_exact = prop == "C19" && c.cls == 0 && chance(3);
  if (large_exact) c.n = pick64(65000, 70000);
  c.alpha = gen_alpha(prop == "C18" && c.cls == 1 && chance(80));
  if (prop == "C18" && pick(0, big ? 499 : 999) == 0) {
    // integral skews together with bin counts next to a power of two, up to 2^22 (fast paths for integer exponents,
    // products of ranks that leave 64 or 32 bits). Rare: the reference CDF is O(n) in long double.
    c.alpha = static_cast<double>(pick(0, 4));
    const int k = chance(50) ? 22 : pick(10, 21);
    c.n = (1ULL << k) + static_cast<uint64_t>(pick(0, 4)) - 2;
  }
  switch (c.type) {
    case 0: gen_min<uint32_t>(c); break;
    case 1: gen_min<uint64_t>(c); break;
    case 2: gen_min<int32_t>(c); break;
    default: gen_min<int64_t>(c); break;
  }
  if (prop == "C06") {
    const int np = pick(1, 8);
    for (int i = 0; i < np; i++) {
      Probe p;
      p.ukind = pick(0, 9) < 7 ? pick(0, 2) : pick(3, 5);
      switch (pick(0, 5)) {
        case 0: p.k = 0; break;
        case 1: p.k = c.n - 1; break;
        case 2: p.k = c.n >= 2 ? c.n - 2 : 0; break;
        case 3: p.k = pick64(95, 104); break;
        default: p.k = pick64(0, c.n - 1); break;
      }
      p.word = *rc::gen::arbitrary<uint64_t>();
      c.probes.push_back(p);
    }
  } else if (prop == "C19") {
    c.threads = chance(35) ? pick(2, 8) : 0;
    c.engseed = *rc::gen::arbitrary<uint64_t>();
    c.seqlen = pick(1, 3) == 1 ? pick(1, 15) : pick(16, 64);
    if (!large_exact && c.n > (c.cls == 0 ? 4000ULL : 200000ULL)) c.n = pick64(1, c.cls == 0 ? 4000 : 200000);
    if (large_exact) {
      c.threads = pick(2, 6);
      c.seqlen = pick(4, 16);
    }
    if (g_force_threads) {
      if (c.threads < 2) c.threads = pick(2, 5);
      c.rounds = 4;
      if (c.seqlen > 24) c.seqlen = 24;
    }
  }
  return c;
}

}  // namespace

int
main(int argc, char **argv)
{
  std::string mode, file, profile = "C06", out;
  uint64_t seed = 1, start = 0, count = 100;
  bool big = false;
  for (int i = 1; i < argc; i++) {
    std::string a = argv[i];
    auto next = [&]() -> std::string { return i + 1 < argc ? argv[++i] : ""; };
    if (a == "--replay") { mode = "replay"; file = next(); }
    else if (a == "--gen") mode = "gen";
    else if (a == "--profile") profile = next();
    else if (a == "--seed") seed = strtoull(next().c_str(), nullptr, 10);
    else if (a == "--start") start = strtoull(next().c_str(), nullptr, 10);
    else if (a == "--count") count = strtoull(next().c_str(), nullptr, 10);
    else if (a == "--out") out = next();
    else if (a == "--big") big = true;
    else if (a == "--force-threads") g_force_threads = true;
  }
  if (mode == "replay") {
    ZCase c;
    from_text(wk::read_file(file), c);
    Verdict v;
    run_case(c, v);
    for (auto &r : v.reports) printf("REPORT %s: %s\n", r.first.c_str(), r.second.c_str());
    printf("VERDICT %s\n", v.reports.empty() ? "ok" : "REPORTS");
    return v.reports.empty() ? 0 : 10;
  }
  if (mode != "gen" || out.empty()) {
    fprintf(stderr, "usage: zipf_harness --replay FILE | --gen --profile P --seed S --start I --count N --out DIR [--big]\n");
    return 2;
  }
  mkdir(out.c_str(), 0777);
  wk::Counters C;
  double max_ratio = 0;
  const auto gen = rc::gen::exec([profile, big] { return gen_case(profile, big); });
  for (uint64_t i = start; i < start + count; i++) {
    const rc::Random rnd(wk::splitmix(seed ^ wk::splitmix(i + 0x2468ACEULL)));
    auto shr = gen(rnd, 100);
    ZCase c = shr.value();
    {
      // the current case is always on disk (one pwrite), so that a sanitizer abort can be attributed and replayed
      static const int fd = open((out + "/cur.case").c_str(), O_CREAT | O_RDWR | O_TRUNC, 0644);
      std::string t = "# index " + std::to_string(i) + "\n" + to_text(c);
      t.resize(4096, '\n');
      if (fd >= 0) (void)!pwrite(fd, t.data(), t.size(), 0);
    }
    Verdict v;
    run_case(c, v);
    C.evaluations++;
    C.next_index = i + 1;
    for (auto &l : v.labels) C.labels[l]++;
    max_ratio = std::max(max_ratio, v.max_err_ratio);
    const std::string text = to_text(c);
    if (v.nontrivial) {
      C.nontrivial++;
      C.nontrivial_hashes.insert(wk::fnv(text));
      if (C.samples.size() < 3) C.samples.push_back(text);
    }
    if (!v.reports.empty()) {
      std::set<std::string> kinds;
      for (auto &r : v.reports) {
        C.report_kinds[r.first]++;
        if (!kinds.insert(r.first).second || C.viols.size() >= 48) continue;
        // native shrinking: walk rapidcheck's shrink tree while the same oracle kind keeps failing
        auto cur = shr;
        ZCase best = c;
        std::string bestmsg = r.second;
        int steps = 0;
        bool progress = true;
        while (progress && steps < 200) {
          progress = false;
          auto seq = cur.shrinks();
          int tried = 0;
          while (auto nxt = seq.next()) {
            if (++tried > 60) break;
            ZCase cc = nxt->value();
            Verdict vv;
            run_case(cc, vv);
            bool same = false;
            for (auto &rr : vv.reports) {
              if (rr.first == r.first) {
                same = true;
                bestmsg = rr.second;
              }
            }
            if (same) {
              cur = *nxt;
              best = cc;
              progress = true;
              steps++;
              break;
            }
          }
        }
        best.resolved = true;  // probes now carry the explicit engine words
        char fn[256];
        snprintf(fn, sizeof fn, "%s/viol-%lu-%s.case", out.c_str(), i, r.first.c_str());
        wk::write_file(fn, to_text(best));
        C.viols.push_back({r.first, bestmsg, fn, i});
      }
    }
  }
  C.labels["max_error_over_tolerance_x1000=" + std::to_string(static_cast<long>(max_ratio * 1000))] = 1;
  C.done = true;
  wk::write_file(out + "/result.json", C.to_json());
  return 0;
}
