// Worker for the thread family (C04 C05 C14 C15 C16 C17). No prelude.
// Every case runs in a forked child: IDManager owns process-global state.
//   thread_harness --replay FILE [--trace]
//   thread_harness --gen --profile P --seed S --start I --count N --out DIR
#include <sys/wait.h>
#include <unistd.h>

#include "gen_thread.hpp"
#include "interp_thread.hpp"
#include "worker_common.hpp"

using threadcase::Case;
using threadcase::Outcome;

namespace
{
int g_phase = 0;
int g_pipe = -1;
uint32_t g_lsteps[vsched::kMaxT] = {};  // local step counts of the generated program's threads (phase 1)

void
emit(const std::string &s)
{
  if (g_pipe >= 0) {
    (void)!write(g_pipe, s.data(), s.size());
  } else {
    fputs(s.c_str(), stdout);
  }
}

// every oracle hit is written out the moment it is recorded, so that it survives a later crash of the case
void
emit_one(const vsched::Report &r)
{
  std::string m = r.msg;
  for (auto &ch : m) {
    if (ch == '\n') ch = ' ';
  }
  emit("REPORT " + r.kind + ": " + m + " (T" + std::to_string(r.thread) + " step " + std::to_string(r.step) + ")\n");
}
void
emit_reports()
{
}

[[noreturn]] void
on_fatal(vsched::Verdict v)
{
  emit_reports();
  const char *name = v == vsched::kStepBound ? "STEPBOUND" : (g_phase >= 2 ? "FINAL_BUSY" : "STUCK");
  emit(std::string("VERDICT ") + name + " phase=" + std::to_string(g_phase) + " steps=" + std::to_string(vsched::stats().steps) + "\n");
  fflush(stdout);
  _exit(v == vsched::kStepBound ? 5 : 3);
}

// runs in the child (or directly for --replay)
int
execute(const Case &c, bool trace)
{
  vsched::Config cfg;
  cfg.trace = trace;
  cfg.K = 64 + 16 * static_cast<uint64_t>(threadinterp::capacity());
  cfg.maxsteps = 400000;
  Outcome o;
  threadinterp::run_case(c, cfg, o, &g_phase);
  for (int t = 0; t < vsched::kMaxT; t++) g_lsteps[t] = o.lsteps[t];
  emit_reports();
  char b[512];
  snprintf(b, sizeof b,
           "OUTCOME probe_collision=%d probe_wrapped=%d waited_full=%d reuse_in_cleanup=%d reuse_after_exit=%d claim_overlaps_exit=%d "
           "fwd_with_foreign_guard=%d thread_churn=%d quiescent_after_pinned=%d boundary_crossed=%d fwd_inside_getprotected=%d "
           "node_retired_under_guard=%d ids=%d guards=%d forwards=%d skipped=%d executed=%d excluded=%d steps=%lu maxid=%d overlap=%d\n",
           o.probe_collision, o.probe_wrapped, o.waited_full, o.reuse_in_cleanup, o.reuse_after_exit, o.claim_overlaps_exit, o.fwd_with_foreign_guard,
           o.thread_churn, o.quiescent_after_pinned, o.boundary_crossed, o.fwd_inside_getprotected, o.node_retired_under_guard, o.ids_issued, o.guards,
           o.forwards, o.skipped, o.executed, o.excluded_known, vsched::total_steps(), o.max_id, static_cast<int>(o.overlapping_guards));
  emit(b);
  {
    std::string ls = "LSTEPS";
    for (int t = 0; t < vsched::kMaxT; t++) ls += " " + std::to_string(g_lsteps[t]);
    emit(ls + "\n");
  }
  emit(std::string("VERDICT ") + (vsched::reports().empty() ? "ok" : "REPORTS") + " phase=" + std::to_string(g_phase) + "\n");
  return vsched::reports().empty() ? 0 : 10;
}

bool
parse_outcome(const std::string &out, Outcome &o, uint64_t &steps)
{
  const auto pos = out.find("OUTCOME ");
  if (pos == std::string::npos) return false;
  int v[18] = {};
  unsigned long st = 0;
  const int n = sscanf(out.c_str() + pos,
                       "OUTCOME probe_collision=%d probe_wrapped=%d waited_full=%d reuse_in_cleanup=%d reuse_after_exit=%d claim_overlaps_exit=%d "
                       "fwd_with_foreign_guard=%d thread_churn=%d quiescent_after_pinned=%d boundary_crossed=%d fwd_inside_getprotected=%d "
                       "node_retired_under_guard=%d ids=%d guards=%d forwards=%d skipped=%d executed=%d excluded=%d steps=%lu",
                       &v[0], &v[1], &v[2], &v[3], &v[4], &v[5], &v[6], &v[7], &v[8], &v[9], &v[10], &v[11], &v[12], &v[13], &v[14], &v[15], &v[16], &v[17], &st);
  if (n < 19) return false;
  o.probe_collision = v[0];
  o.probe_wrapped = v[1];
  o.waited_full = v[2];
  o.reuse_in_cleanup = v[3];
  o.reuse_after_exit = v[4];
  o.claim_overlaps_exit = v[5];
  o.fwd_with_foreign_guard = v[6];
  o.thread_churn = v[7];
  o.quiescent_after_pinned = v[8];
  o.boundary_crossed = v[9];
  o.fwd_inside_getprotected = v[10];
  o.node_retired_under_guard = v[11];
  o.ids_issued = v[12];
  o.guards = v[13];
  o.forwards = v[14];
  o.skipped = v[15];
  o.executed = v[16];
  o.excluded_known = v[17];
  steps = st;
  {
    const auto mp = out.find(" maxid=", pos);
    if (mp != std::string::npos) o.max_id = atoi(out.c_str() + mp + 7);
    const auto op2 = out.find(" overlap=", pos);
    if (op2 != std::string::npos) o.overlapping_guards = atoi(out.c_str() + op2 + 9) != 0;
  }
  return true;
}

// executes one case in a forked child and folds the outcome into the counters; optionally returns the local step counts
void
run_forked(const Case &c, const std::string &profile, const std::string &out, uint64_t i, wk::Counters &C, uint32_t *lsteps)
{
  const std::string text = threadcase::to_text(c);
  int pfd[2];
  int efd[2];
  if (pipe(pfd) != 0 || pipe(efd) != 0) exit(9);
  const pid_t pid = fork();
  if (pid == 0) {
    close(pfd[0]);
    close(efd[0]);
    dup2(efd[1], 2);
    g_pipe = pfd[1];
    const int rc = execute(c, false);
    _exit(rc);
  }
  close(pfd[1]);
  close(efd[1]);
  std::string o, e;
  char buf[4096];
  ssize_t r;
  while ((r = read(pfd[0], buf, sizeof buf)) > 0) o.append(buf, static_cast<size_t>(r));
  while ((r = read(efd[0], buf, sizeof buf)) > 0) {
    if (e.size() < 16384) e.append(buf, static_cast<size_t>(r));
  }
  close(pfd[0]);
  close(efd[0]);
  int st = 0;
  waitpid(pid, &st, 0);
  C.evaluations++;
  C.next_index = i + 1;
  std::set<std::string> kinds;
  std::map<std::string, std::string> msgs;
  size_t pos = 0;
  while ((pos = o.find("REPORT ", pos)) != std::string::npos) {
    const size_t colon = o.find(':', pos);
    const size_t eol = o.find('\n', pos);
    if (colon == std::string::npos || eol == std::string::npos) break;
    const std::string k = o.substr(pos + 7, colon - pos - 7);
    kinds.insert(k);
    msgs.emplace(k, o.substr(colon + 2, eol - colon - 2));
    pos = eol;
  }
  const int code = WIFEXITED(st) ? WEXITSTATUS(st) : -1;
  if (code == 5) {
    C.inconclusive++;
  } else if (code == 3) {
    const bool fin = o.find("VERDICT FINAL_BUSY") != std::string::npos;
    kinds.insert(fin ? "FINAL_BUSY" : "STUCK");
    msgs.emplace(fin ? "FINAL_BUSY" : "STUCK", fin ? "the ID table is not empty after all threads exited" : "no thread can make progress");
  } else if (code != 0 && code != 10) {
    const bool uaf = e.find("heap-use-after-free") != std::string::npos || e.find("double-free") != std::string::npos;
    kinds.insert(uaf ? "CRASH-UAF" : "CRASH");
    std::string first = "abnormal termination";
    const size_t ep = e.find("ERROR:");
    if (ep != std::string::npos) first = e.substr(ep, e.find('\n', ep) - ep);
    msgs.emplace(uaf ? "CRASH-UAF" : "CRASH", first);
  }
  if (lsteps != nullptr) {
    const size_t lp = o.find("LSTEPS");
    if (lp != std::string::npos) {
      std::istringstream ls(o.substr(lp + 6, o.find('\n', lp) - lp - 6));
      for (int t = 0; t < vsched::kMaxT; t++) ls >> lsteps[t];
    }
  }
  Outcome oc;
  uint64_t steps = 0;
  if (parse_outcome(o, oc, steps)) {
    C.steps += steps;
    C.skipped_ops += oc.skipped;
    C.executed_ops += oc.executed;
    C.excluded_known += oc.excluded_known;
    std::vector<std::string> labels;
    const bool nt = threadgen::classify(profile, c, oc, labels);
    for (auto &l : labels) C.labels[l]++;
    if (nt) {
      C.nontrivial++;
      C.nontrivial_hashes.insert(wk::fnv(text));
      if (C.samples.size() < 3) C.samples.push_back(text);
    }
  }
  for (auto &k : kinds) {
    C.report_kinds[k]++;
    if (C.viols.size() < 64) {
      char fn[256];
      snprintf(fn, sizeof fn, "%s/viol-%lu-%s.case", out.c_str(), i, k.c_str());
      wk::write_file(fn, text);
      C.viols.push_back({k, msgs[k], fn, i});
    }
  }
}

// bounded sweep: a fixed catalogue of tiny histories x ALL schedules with <= 2 step-level preemptions
void
run_sweep(const std::string &profile, int cap, const std::string &out, int shard, int nshards, wk::Counters &C)
{
  using threadcase::Op;
  using namespace threadcase;  // NOLINT
  auto mk = [](uint8_t code, uint32_t a = 0) {
    Op o;
    o.code = code;
    o.a = a;
    return o;
  };
  const bool id_only = profile == "C05" || profile == "C14" || profile == "C15";
  std::vector<std::vector<Op>> minis;
  std::vector<Case> progs;
  if (id_only) {
    minis = {{mk(GETID)}, {mk(GETHB)}, {mk(GETHB), mk(CHECKHB)}, {mk(GETID), mk(YIELD), mk(GETID)}};
    for (int nthr = 2; nthr <= 3; nthr++) {
      const int total = nthr == 2 ? 16 : 64;
      for (int code = 0; code < total; code++) {
        for (int probes = 0; probes < 2; probes++) {
          for (int late = 0; late < 3; late++) {
            Case c;
            c.cap = cap;
            c.threads.resize(nthr);
            int x = code;
            for (int t = 0; t < nthr; t++) {
              c.threads[t].ops = minis[x % 4];
              x /= 4;
              c.threads[t].probe = probes == 0 ? 0 : static_cast<uint64_t>(t);
            }
            if (late > 0) {
              c.threads[nthr - 1].sk = late == 1 ? vsched::kAfterBody : vsched::kAfterExit;
              c.threads[nthr - 1].dep = 0;
            }
            if (nthr == 3 && (late == 2 || probes == 1) && code % 3 != 0) continue;  // thin out the 3-thread part
            progs.push_back(c);
          }
        }
      }
    }
  } else {
    minis = {{mk(GUARD_NEW, 0), mk(GUARD_END, 1)},
             {mk(GUARD_NEW, 1), mk(CHECK_LIST), mk(GUARD_END, 0)},
             {mk(GUARD_NEW, 0), mk(GUARD_REFRESH, 1), mk(GUARD_END, 2)},
             {mk(GUARD_NEW, 1), mk(YIELD), mk(CHECK_LIST), mk(GUARD_END, 1)}};
    std::vector<std::vector<Op>> coord = {{mk(GETID), mk(YIELD), mk(FWD, 2)},
                                          {mk(GETID), mk(FWD_BULK, 255), mk(YIELD), mk(FWD, 2)},
                                          {mk(FWD_BULK, 510), mk(YIELD), mk(FWD, 2), mk(YIELD), mk(FWD, 1)},
                                          {mk(GETID), mk(FWD_BULK, 767), mk(YIELD), mk(FWD_BULK, 300), mk(FWD, 1)}};
    for (size_t ci = 0; ci < coord.size(); ci++) {
      for (int w1 = 0; w1 < 4; w1++) {
        for (int w2 = -1; w2 < 4; w2++) {
          for (int late = 0; late < 2; late++) {
            if (w2 < 0 && late > 0) continue;
            Case c;
            c.cap = cap;
            c.use_epoch = true;
            c.threads.resize(w2 < 0 ? 2 : 3);
            c.threads[0].ops = coord[ci];
            c.threads[1].ops = minis[w1];
            c.threads[1].probe = 0;
            if (w2 >= 0) {
              c.threads[2].ops = minis[w2];
              c.threads[2].probe = 0;
              if (late) {
                c.threads[2].sk = vsched::kAfterExit;  // forces reuse of the first worker's ID when the capacity is small
                c.threads[2].dep = 1;
              }
            }
            progs.push_back(c);
          }
        }
      }
    }
  }
  uint64_t idx = 0;
  for (size_t pi = 0; pi < progs.size(); pi++) {
    if (static_cast<int>(pi % static_cast<size_t>(nshards)) != shard) continue;
    C.labels["sweep_programs"]++;
    Case &base = progs[pi];
    uint32_t ls[vsched::kMaxT] = {};
    run_forked(base, profile, out, idx++, C, ls);
    const int nthr = static_cast<int>(base.threads.size());
    std::vector<vsched::Preempt> pts;
    for (int t = 0; t < nthr; t++) {
      // bulk forwards run inside a no-preempt scope and do not advance the local step index, so the counts stay small
      const uint32_t len = std::min<uint32_t>(ls[t] + 4, 60);
      for (uint32_t st = 0; st < len; st++) {
        for (int tg = 0; tg < nthr - 1; tg++) pts.push_back({t, st, tg});
      }
    }
    for (size_t i = 0; i < pts.size(); i++) {
      Case c1 = base;
      c1.sched.preempts = {pts[i]};
      run_forked(c1, profile, out, idx++, C, nullptr);
    }
    // pairs: only for two-thread programs (the space grows quadratically and every case costs a fork)
    if (nthr == 2) {
      for (size_t i = 0; i < pts.size(); i++) {
        for (size_t j = i + 1; j < pts.size(); j++) {
          if (pts[j].thread == pts[i].thread && pts[j].lstep == pts[i].lstep) continue;
          Case c2 = base;
          c2.sched.preempts = {pts[i], pts[j]};
          run_forked(c2, profile, out, idx++, C, nullptr);
        }
      }
    }
  }
}

}  // namespace

int
main(int argc, char **argv)
{
  std::string mode, file, profile = "C05", out;
  uint64_t seed = 1, start = 0, count = 100;
  bool trace = false;
  int shard = 0, nshards = 1;
  for (int i = 1; i < argc; i++) {
    std::string a = argv[i];
    auto next = [&]() -> std::string { return i + 1 < argc ? argv[++i] : ""; };
    if (a == "--replay") {
      mode = "replay";
      file = next();
    } else if (a == "--gen") {
      mode = "gen";
    } else if (a == "--dump") {
      mode = "dump";
    } else if (a == "--profile") {
      profile = next();
    } else if (a == "--seed") {
      seed = strtoull(next().c_str(), nullptr, 10);
    } else if (a == "--start") {
      start = strtoull(next().c_str(), nullptr, 10);
    } else if (a == "--count") {
      count = strtoull(next().c_str(), nullptr, 10);
    } else if (a == "--out") {
      out = next();
    } else if (a == "--trace") {
      trace = true;
    } else if (a == "--sweep") {
      mode = "sweep";
    } else if (a == "--shard") {
      const std::string v = next();
      sscanf(v.c_str(), "%d/%d", &shard, &nshards);
      if (nshards < 1) nshards = 1;
    }
  }
  vsched::set_fatal_handler(on_fatal);
  vsched::on_report(emit_one);
  const int cap = threadinterp::capacity();
  if (mode == "replay") {
    Case c;
    std::string err;
    if (!threadcase::from_text(wk::read_file(file), c, err)) {
      fprintf(stderr, "parse error: %s\n", err.c_str());
      return 2;
    }
    if (c.cap != 0 && c.cap != cap) fprintf(stderr, "note: case was generated for capacity %d, this binary has capacity %d\n", c.cap, cap);
    return execute(c, trace);
  }
  if (mode == "dump") {
    for (uint64_t i = start; i < start + count; i++) printf("# index %lu\n%s\n", i, threadcase::to_text(threadgen::generate(profile, cap, seed, i)).c_str());
    return 0;
  }
  if ((mode != "gen" && mode != "sweep") || out.empty()) {
    fprintf(stderr, "usage: thread_harness --replay FILE [--trace] | --gen --profile P --seed S --start I --count N --out DIR\n");
    return 2;
  }
  mkdir(out.c_str(), 0777);
  wk::Counters C;
  if (mode == "sweep") {
    run_sweep(profile, cap, out, shard, nshards, C);
    C.done = true;
    wk::write_file(out + "/result.json", C.to_json());
    return 0;
  }
  for (uint64_t i = start; i < start + count; i++) {
    const Case c = threadgen::generate(profile, cap, seed, i);
    run_forked(c, profile, out, i, C, nullptr);
  }
  C.done = true;
  wk::write_file(out + "/result.json", C.to_json());
  return 0;
}
